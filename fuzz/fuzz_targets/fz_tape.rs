#![no_main]
//! Structure-aware target: the bytes are the tape of the program generator; the decoded
//! program goes through the C01 oracle (tree search vs reference traversal) and the
//! C05-C08 reference-detector oracles.
use libfuzzer_sys::fuzz_target;
use std::sync::Once;
use vcheck::engine::{install_panic_hook, Stats};
use vcheck::gen::program::{gen_program, GenCfg};
use vcheck::tape::Tape;

static INIT: Once = Once::new();

fuzz_target!(|data: &[u8]| {
    INIT.call_once(|| {
        let _ = std::panic::take_hook();
        install_panic_hook();
    });
    if data.is_empty() {
        return;
    }
    let focus = data[0] % 4;
    let mut t = Tape::new(&data[1..]);
    let cfg = GenCfg { undecided: true, plant: 100, focus, max_depth: 7, ..Default::default() };
    let text = gen_program(&mut t, &cfg);
    let mut st = Stats::default();
    // C01 on the file root and a spread of sub-roots, with the detectors' kind sets and all kinds present
    let sel = vcheck::props::c01::fuzz_selection(&text);
    let mut vs = match &sel {
        Some(sel) => vcheck::props::c01::check_text("fz_tape", &text, Some(sel), &mut st),
        None => Vec::new(),
    };
    for prop in ["C05", "C06", "C07", "C08"] {
        vs.extend(vcheck::props::detectors::check_text("fz_tape", prop, &text, &mut st));
    }
    if let Some(v) = vs.first() {
        eprintln!("VIOLATION-IN-FUZZ signature={} what={}", v.sig, v.what);
        std::process::abort();
    }
});
