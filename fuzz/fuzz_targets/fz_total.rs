#![no_main]
//! C04 totality on arbitrary bytes: gate = valid UTF-8, accepted by the parser without
//! panicking, reference depth <= 64; then all 30 detectors must return.
use libfuzzer_sys::fuzz_target;
use std::sync::Once;
use vcheck::engine::{install_panic_hook, Stats};

static INIT: Once = Once::new();

fuzz_target!(|data: &[u8]| {
    INIT.call_once(|| {
        // libfuzzer-sys installs an abort-on-panic hook; replace it so catch_unwind works
        let _ = std::panic::take_hook();
        install_panic_hook();
    });
    let text = match std::str::from_utf8(data) {
        Ok(t) => t,
        Err(_) => return,
    };
    let mut st = Stats::default();
    let vs = vcheck::props::c04::check_text("fz_total", text, "fuzz", &mut st);
    if let Some(v) = vs.first() {
        eprintln!("VIOLATION-IN-FUZZ property=C04 signature={} what={}", v.sig, v.what);
        std::process::abort();
    }
});
