pragma solidity 0.8.0 ;
contract C1 {
constructor ( uint256 p1 ) public {
try new C9 ( ) catch {
}
}
}
