pragma solidity 0.8.0 ;
contract C1 {
uint256 [ ] s1 ;
function f1 ( uint256 p1 ) public {
}
function f2 ( ) onlyOwner ( s1 ) {
}
}
