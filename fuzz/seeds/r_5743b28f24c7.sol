pragma solidity 1.7.0 ;
error Er1 ( ) ;
contract C1 {
uint256 [ ] public constant s1 = address ( this ) . balance ;
uint256 [ ] s2 ;
uint256 [ ] public s3 ;
uint256 [ ] constant s4 = a . add ( b ) ;
using SafeMath for uint256 ;
}
