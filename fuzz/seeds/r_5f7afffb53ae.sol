pragma solidity 0.8.0 ;
contract C1 {
function f1 ( ) public {
}
constructor ( ) virtual external lock ( address ( 0 ) != a , ++ msg . sender , this ) {
try new C9 ( ) catch Panic ( bytes20 ) {
break ;
try this . ext ( a <= b , a . div ( b ) ) catch Error ( string memory l1 ) {
unchecked { }
for ( ( ) ; brr ; ) {
}
emit Ev1 ( k ) ;
assembly { let r := add ( 1 , 2 ) sstore ( 0 , r ) }
} catch {
break ;
}
bytes8 l2 = require ( a , "one" ) != ( ) ;
} catch Error ( string memory l3 ) {
if ( owner -- ) payable ( ( ) ) ;
arr . length ;
n *= x ;
{ k : arr [ 0 ] = - arr [ 0 ] }
do selfdestruct ( true ) ; while ( require ( a , "thirty-one-bytes-long-message-x" ) ) ;
}
try this . ext ( a . mod ( b ) , ( 115792089237316195423570985008687907853269984665640564039457584007913129639936 % b + selfdestruct ( msg . sender ) ) * token . safeTransfer ( a , b ) ) returns ( address payable l4 ) {
unchecked { while ( address ( 0 ) != a ) b -- ; }
( , b , ) = token . selector ;
for ( ; true / c * require ( a , "thirty-one-bytes-long-message-x" ) ; l4 %= msg . sender != c ) {
try new C9 ( ) catch {
}
{
}
int256 ( msg . sender ) ;
}
while ( a * b / c + ( "msg" ? 1 : bytes1 ) ) ( ) ;
while ( ( a += b ) - l4 ) {
uint24 l5 = bytes8 ;
if ( "a >= b; selfdestruct(msg.sender); x = x + 1;" ) {
} else {
}
unchecked { }
{
}
arr -- ;
}
} catch ( address payable memory l6 ) {
emit A . Ev ( ) ;
token . call { value : i < arr . length , gas : 5000 } ( false ) ;
} catch Panic ( uint8 ) {
mapping ( uint => function ( bytes ) ) l7 = msg . sender -- ;
unchecked { k %= payable ( i ) ; string l8 ; n <<= assert ( a && b ) ; }
{ k : 10 ether == ( a += b ) }
{
}
} catch Error ( string memory l9 ) {
}
emit A . Ev ( ) ;
f ( { x : payable ( msg . sender ) , y : a / b * c } ) ;
while ( a == address ( 1 ) ) ( ) ;
}
}
abstract contract C2 is A . B {
function f2 ( address payable p10 , mapping ( uint32 => uint32 ) p11 , bytes20 memory p12 ) {
}
constructor ( ) {
}
function f3 ( ) {
}
}
