pragma solidity 0.8.0 ;
error Er1 ( uint256 ) ;
contract C1 {
receive ( ) external payable {
{
a = ( 0 ) . sender ;
bytes32 l2 = selfdestruct ( payable ( msg . sender ) ) ;
}
}
}
