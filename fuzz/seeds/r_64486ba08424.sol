pragma solidity 0.9.0 ;
interface C1 is Base {
function f1 ( ) ;
constructor ( ) public {
unchecked { }
}
function f2 ( uint256 p1 , uint256 memory p2 ) public ;
function f3 ( ) onlyOwner ( a [ address ( this ) . balance == address ( this ) . balance ] = address ( this ) . balance ) ;
error Er3 ( ) ;
function f4 ( uint256 p4 , uint256 p5 ) public onlyOwner ( a ? require ( a , "short message" ) : a ) ;
}
