pragma abicoder v2 ;
pragma experimental SMTChecker ;
pragma experimental SMTChecker ;
abstract contract C1 {
event Ev1 ( address payable e0 , int24 e1 ) ;
mapping ( bytes32 [ a * 2 ether ] => uint128 [ k ] [ [ msg . sender , bytes16 ] ] ) private s1 ;
enum E2 { A , B , C }
constructor ( mapping ( bytes30 => uint96 ) p3 ) {
emit Transfer ( ) ;
int24 l4 = arr ;
}
modifier lock { 1024 > msg . sender ; _ ; }
type T5 is uint248 ;
bytes4 s2 ;
modifier lock { if ( msg . sender == int ) {
1e18 ;
token [ false ] >>= 2 ;
} _ ; }
function f3 ( S1 p6 ) {
}
type T7 is int200 ;
enum E8 { A , B , C }
int8 override ( A , B . C ) s3 ;
function _f4 ( address payable p9 , uint40 storage p10 ) Only external returns ( uint8 , bytes16 memory l11 ) {
do {
1_000_000 ;
l11 %= p10 ;
} while ( s1 + 3 ) ;
}
struct S12 { uint16 m0 ; bytes4 m1 ; bytes32 m2 ; }
function _f5 ( ) override {
}
function _f6 ( uint40 memory p13 , bytes20 storage p14 ) lock ( ) override ( A , B . C ) {
( p13 , ) ;
for ( ; ; ) {
}
}
int128 [ ] constant s4 = a * 1 ;
function f7 ( string p15 , mapping ( bytes => address payable ) storage p16 ) internal {
if ( + ( ) ) token [ true ] -= .5 ;
}
constructor ( function ( uint200 ) internal returns ( int128 [ ] ) memory p17 , bytes31 p18 ) pure Base ( ( token [ : this ] , a * 2 , 4294967296 * s2 ) , s3 [ arr [ 0 ] = arr [ 0 ] ** 2 ] , require ( a > b , "exactly-thirty-two-bytes-long-msg" ) << - b ) {
return owner * "escaped \" quote // not a comment" ;
{ k : s2 -- , v : p17 }
}
error Er19 ( uint16 , address payable e1 ) ;
;
struct S20 { bytes20 [ ] m0 ; uint24 m1 ; }
receive ( ) external payable {
unchecked { false ; arr [ 32 ] *= 7 ; if ( "" ) {
} else {
} }
}
error Er21 ( byte , int200 e1 ) ;
error Er22 ( function ( uint24 ) external view [ ] e0 , bytes1 e1 ) ;
constructor ( ) {
uint72 l23 ;
}
function f8 ( ) {
}
function f9 ( ) {
}
function f10 ( ) {
}
function f11 ( ) {
}
function f12 ( ) {
}
function f13 ( ) {
}
function f14 ( ) {
}
function f15 ( ) {
}
function f16 ( ) {
}
function f17 ( ) {
}
function f18 ( ) {
}
function f19 ( ) {
}
function f20 ( ) {
}
function f21 ( ) {
}
function f22 ( ) {
}
function f23 ( ) {
}
function f24 ( ) {
}
function f25 ( ) {
}
function f26 ( ) {
}
function f27 ( ) {
}
function f28 ( ) {
}
function f29 ( ) {
}
function f30 ( ) {
}
function f31 ( ) {
}
function f32 ( ) {
}
function f33 ( ) {
}
function f34 ( ) {
}
function f35 ( ) {
}
function f36 ( ) {
}
function f37 ( ) {
}
function f38 ( ) {
}
function f39 ( ) {
}
function f40 ( ) {
}
function f41 ( ) {
}
function f42 ( ) {
}
function f43 ( ) {
}
function f44 ( ) {
}
function f45 ( ) {
}
function f46 ( ) {
}
function f47 ( ) {
}
function f48 ( ) {
}
function f49 ( ) {
}
function f50 ( ) {
}
function f51 ( ) {
}
function f52 ( ) {
}
function f53 ( ) {
}
function f54 ( ) {
}
function f55 ( ) {
}
function f56 ( ) {
}
function f57 ( ) {
}
function f58 ( ) {
}
function f59 ( ) {
}
function f60 ( ) {
}
function f61 ( ) {
}
function f62 ( ) {
}
function f63 ( ) {
}
function f64 ( ) {
}
function f65 ( ) {
}
function f66 ( ) {
}
function f67 ( ) {
}
function f68 ( ) {
}
function f69 ( ) {
}
function f70 ( ) {
}
function f71 ( ) {
}
function f72 ( ) {
}
function f73 ( ) {
}
function f74 ( ) {
}
function f75 ( ) {
}
function f76 ( ) {
}
function f77 ( ) {
}
function f78 ( ) {
}
function f79 ( ) {
}
function f80 ( ) {
}
function f81 ( ) {
}
function f82 ( ) {
}
function f83 ( ) {
}
function f84 ( ) {
}
function f85 ( ) {
}
function f86 ( ) {
}
function f87 ( ) {
}
function f88 ( ) {
}
function f89 ( ) {
}
function f90 ( ) {
}
function f91 ( ) {
}
function f92 ( ) {
}
function f93 ( ) {
}
function f94 ( ) {
}
function f95 ( ) {
}
function f96 ( ) {
}
function f97 ( ) {
}
function f98 ( ) {
}
function f99 ( ) {
}
function f100 ( ) {
}
function f101 ( ) {
}
function f102 ( ) {
}
function f103 ( ) {
}
function f104 ( ) {
}
function f105 ( ) {
}
function f106 ( ) {
}
function f107 ( ) {
}
function f108 ( ) {
}
function f109 ( ) {
}
function f110 ( ) {
}
function f111 ( ) {
}
function f112 ( ) {
}
function f113 ( ) {
}
function f114 ( ) {
}
function f115 ( ) {
}
function f116 ( ) {
}
function f117 ( ) {
}
function f118 ( ) {
}
function f119 ( ) {
}
function f120 ( ) {
}
function f121 ( ) {
}
function f122 ( ) {
}
function f123 ( ) {
}
function f124 ( ) {
}
function f125 ( ) {
}
function f126 ( ) {
}
function f127 ( ) {
}
function f128 ( ) {
}
function f129 ( ) {
}
function f130 ( ) {
}
function f131 ( ) {
}
function f132 ( ) {
}
function f133 ( ) {
}
function f134 ( ) {
}
function f135 ( ) {
}
function f136 ( ) {
}
function f137 ( ) {
}
function f138 ( ) {
}
function f139 ( ) {
}
function f140 ( ) {
}
function f141 ( ) {
}
function f142 ( ) {
}
function f143 ( ) {
}
function f144 ( ) {
}
function f145 ( ) {
}
function f146 ( ) {
}
function f147 ( ) {
}
function f148 ( ) {
}
function f149 ( ) {
}
function f150 ( ) {
}
function f151 ( ) {
}
function f152 ( ) {
}
function f153 ( ) {
}
function f154 ( ) {
}
function f155 ( ) {
}
function f156 ( ) {
}
function f157 ( ) {
}
function f158 ( ) {
}
function f159 ( ) {
}
function f160 ( ) {
}
function f161 ( ) {
}
function f162 ( ) {
}
function f163 ( ) {
}
function f164 ( ) {
}
function f165 ( ) {
}
}
contract C2 {
}
