pragma abicoder v2 ;
pragma solidity >=0.8.0 ;
using SafeMath for uint256 ;
contract T {
function f ( uint256 a , uint256 b ) public {
uint256 c = a . add ( b ) ;
c = c . sub ( 1 ) ;
c = c . mul ( 2 ) . div ( 3 ) ;
c = c . mod ( 2 ) ;
require ( a > 0 , "" ) ;
require ( a > 0 , "m" ) ;
require ( a > 0 , "mmmmmmmmmmmmmmmmmmmmmmmmmmmmmmm" ) ;
require ( a > 0 , "mmmmmmmmmmmmmmmmmmmmmmmmmmmmmmmm" ) ;
require ( a > 0 , "mmmmmmmmmmmmmmmmmmmmmmmmmmmmmmmmm" ) ;
require ( a > 0 , "mmmmmmmmmmmmmmmmmmmmmmmmmmmmmmmmmmmmmmmmmmmmmmmmmmmmmmmmmmmmmmmm" ) ;
require ( a > 0 , b ) ;
require ( a > 0 ) ;
require ( "thirty-two-bytes-or-more-as-the-only-argument" ) ;
}
}
