pragma solidity 0.8.0 ;
interface C1 {
function f1 ( uint256 memory p1 , uint256 p2 , uint256 p3 ) public override ;
modifier onlyOwner { _ ; }
function f3 ( uint256 p4 , address payable p5 , uint256 p6 ) virtual public returns ( uint256 , uint256 ) ;
uint256 public override s1 ;
IERC20 s2 = s1 = new C9 ( ) ;
IERC20 s3 ;
IERC20 public s4 ;
}
contract C2 {
IERC20 s5 = a ;
function f4 ( ) public nonReentrant returns ( uint16 , uint128 memory l7 ) ;
constructor ( ) {
return ;
}
}
