pragma solidity 0.8.0 ;
type T1 is uint256 ;
contract C1 {
fallback ( ) external {
}
enum E2 { }
event Ev3 ( uint256 ) ;
uint256 [ ] override public s1 = 0 << address ( this ) . balance ;
modifier onlyOwner { revert ( { reason : ( a >= b ) [ ] } ) ; _ ; }
error Er4 ( uint256 ) ;
}
contract C2 {
constructor ( ) {
}
}
