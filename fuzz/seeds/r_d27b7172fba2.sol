pragma solidity 1.7.0 ;
contract C1 {
error Er1 ( ) ;
receive ( ) external payable {
for ( a = a ; a == ( arr [ 0 ] = arr [ 0 ] + a ) ? require ( a , "short message" ) : a ; ) a = a ;
}
}
