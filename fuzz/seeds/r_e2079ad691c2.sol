pragma solidity 1.8.3 ;
contract C1 {
function f1 ( ) onlyOwner onlyOwner onlyOwner ( arr , a . selector ) returns ( uint72 ) ;
modifier checked ( bool p1 ) { {
int l2 = payable ( require ( a , "a message that is longer than thirty-two bytes in total" ) ) ;
a = a ;
a = a ;
a = a ;
a = a ;
} a = a ; _ ; }
}
