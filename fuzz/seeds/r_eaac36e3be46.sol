pragma solidity 0.9.0 ;
contract C1 {
constructor ( address payable calldata p1 ) mod . only ( a . keccak256 ( b ) , i ++ ) override ( A , B . C ) auth {
return arr [ 0 ] = arr [ 1 ] + 1 ;
continue ;
continue ;
g ( a * 2 , b . add ) ;
try new C9 ( ) catch Error ( string memory l2 ) {
}
}
;
mapping ( uint16 => bytes ) _s1 ;
bytes32 constant public s2 = a >= b ;
function f1 ( ) ;
uint200 immutable _s3 = false & ( ( a >= b ) - ( owner [ a * 0 ] /= ( token . transfer ( a , b ) ) . length ) == [ token . Transfer , a * ( b / c ) , a < address ( 0 ) ] ) ;
IERC20 immutable s4 = ( arr [ 0 ] = arr [ 0 ] ** 2 ) >> msg . sender >= ( a % b << require ( a > b , "exactly-thirty-two-bytes-long-msg" ) > ( a ** 2 && ( x /= a / b ) ) ) [ ++ i : ] || payable ( msg . sender ) ;
}
abstract contract C2 {
using SafeMath for uint256 ;
function f2 ( bytes32 calldata p3 ) ;
}
contract C3 {
function f3 ( S1 p4 , bytes30 p5 ) internal payable {
a * 2e3 ;
}
function _f4 ( ) override ( A , B . C ) returns ( uint256 , bytes30 ) {
}
}
event Ev6 ( uint8 , bytes30 , address payable indexed e2 ) ;
enum E7 { }
