
    
contract Contract0 {
    function greaterThanOrEqualTo(uint256 a, uint256 b) public pure {
        return a >= b;
    }

    function lessThanOrEqualTo(uint256 a, uint256 b) public pure {
        return a <= b;
    }
}
    