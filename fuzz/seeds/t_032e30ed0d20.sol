
    
    contract Contract0 {
        address public addr1;
        address public _addr2;
        address private _addr3;
        address private addr4;
        address internal _addr5;
        address internal addr6;
    }
    