

    contract Contract0 {

        function mul2(uint256 a, uint256 b) public pure {
            uint256 a = 10 * 2;

            uint256 b = 2 * a;
            uint256 c = a * b;

            uint256 d = (a * b) * 2;
        }
    }
    