
    

    contract Contract0 {

        //addition in Solidity
        function addTest(uint256 a, uint256 b) public pure {
            uint256 c = a + b;
        }

        //addition in assembly
        function addAssemblyTest(uint256 a, uint256 b) public pure {
            assembly {
                let c := add(a, b)
    
                if lt(c, a) {
                    mstore(0x00, "overflow")
                    revert(0x00, 0x20)
                }
            }
        }

        //subtraction in Solidity
        function subTest(uint256 a, uint256 b) public pure {
            uint256 c = a - b;
        }
    }
    
    contract Contract3 {
        //subtraction in assembly
        function subAssemblyTest(uint256 a, uint256 b) public pure {
            assembly {
                let c := sub(a, b)
    
                if gt(c, a) {
                    mstore(0x00, "underflow")
                    revert(0x00, 0x20)
                }
            }
        }

        //multiplication in Solidity
        function mulTest(uint256 a, uint256 b) public pure {
            uint256 c = a * b;
        }
        //multiplication in assembly
        function mulAssemblyTest(uint256 a, uint256 b) public pure {
            assembly {
                let c := mul(a, b)
    
                if lt(c, a) {
                    mstore(0x00, "overflow")
                    revert(0x00, 0x20)
                }
            }
        }

        //division in Solidity
        function divTest(uint256 a, uint256 b) public pure {
            uint256 c = a * b;
        }
        
        function divAssemblyTest(uint256 a, uint256 b) public pure {
            assembly {
                let c := div(a, b)
    
                if gt(c, a) {
                    mstore(0x00, "underflow")
                    revert(0x00, 0x20)
                }
            }
        }
    }

    