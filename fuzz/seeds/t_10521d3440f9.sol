
    contract Contract0 {
        address public owner;
        modifier onlyOwner {
            require(
            msg.sender == owner,
            "Only owner can call this function."
            );
            _;
        }
        constructor() {
            owner = address(1);
        }
    }
    