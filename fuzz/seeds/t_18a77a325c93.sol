
    
    pragma solidity >= 0.8.0;
    contract Contract {


        uint256[] vals;
        ;

        constructor(){
            vals = new uint256[](100);
        }
        function update() public {
            vals[0] = vals[0]+1;
            vals[0]+=1;
        }
    }
 
    