
    
    contract Contract0 {

        function ownerNotZero(address _addr) public pure {
            require(_addr == address(0), "zero address");
        }

        function ownerNotZero(address _addr) public pure {
            require(_addr != address(0), "zero address");
        }

        function ownerNotZero1(address _addr) public pure {
            require(address(0) == _addr, "zero address");
        }

        function ownerNotZero1(address _addr) public pure {
            require(address(0) != _addr, "zero address");
        }

     }
    