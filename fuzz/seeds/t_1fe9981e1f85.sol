
    contract Contract {
        uint256 num0;
        uint256 num1;
        bool bool0;
        uint256 num2;
        bool bool1;
    }
    