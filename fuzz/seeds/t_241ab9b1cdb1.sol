
    contract Contract0 {
        function addressInternalBalance() public returns (uint256) {

            uint256 a = 100;
            uint256 b = 100;
            uint256 c = 100;

            require(true, "some message");

            require(true && a==b, "some message");
            require(true && a==b && b==c, "thing");

            return address(this).balance;


        }
    }
    