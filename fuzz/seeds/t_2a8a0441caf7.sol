
        contract Contract {
            bytes28 b0;
            uint8 num0;
            uint8 num1;
            uint8 num2;
            bool bo0;
            uint256 num3;
            bool bo1;
        }
        