
    
    contract Contract0 {
        // unsafe
        function unprotectedKill() public {
            selfdestruct(msg.sender);
        }

        // unsafe
        function unprotectedKill2() external {
            suicide(owner);
        }

        // safe
        function protectedKill() public {
            require(msg.sender == owner);
            selfdestruct(msg.sender);
        }

        // safe
        function protectedKill2() public onlyOwner {
            selfdestruct(msg.sender);
        }

        // safe
        function internalKill() internal {
            selfdestruct(msg.sender);
        }
    }
    