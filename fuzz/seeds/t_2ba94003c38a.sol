
    
contract Contract0 {

    uint256 constant public x = 100;
    uint256 constant private y = 100;
    uint256 constant z = 100;


    function addPublicConstant(uint256 a) external pure returns (uint256) {
        return a + x;
    }


    function addPrivateConstant(uint256 a) external pure returns (uint256) {
        return a +x;
    }
}

    