
    
    pragma solidity >= 0.8.13;
    contract Contract {
        /// *** Libraries ***
        using SafeMath for uint256;
        using SafeMath for uint16;
    
       
        function testFunction(){
            uint256 something = 190092340923434;
            uint256 somethingElse = 1;

            uint256 thing = something.add(somethingElse);
            uint256 thing1 = something.sub(somethingElse);
            uint256 thing2 = something.mul(somethingElse);
            uint256 thing3 = something.div(somethingElse);

        }
    }
 
    