

    pragma solidity ^0.8.16;

    contract Contract0 {

    }
    