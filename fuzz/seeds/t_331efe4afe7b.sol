
    
    pragma solidity >= 0.8.0;
    contract Contract {


        uint256 firstUint256 = 0;
        uint256 secondUint256 = 100;
        uint256 immutable thirdUint256 = 100;
        uint256 fourthUint256 = 100;
        uint256 constant fifthUint256 = 1000000;

       
        function testFunction() public {
            firstUint256 = 10;
            secondUint256 = someVal;
        }
    }
 
    