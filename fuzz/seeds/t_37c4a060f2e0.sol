
    
    contract Contract0 {

        IERC20 e;

        constructor(){
            e = IERC20(0x1f9840a85d5aF5bf1D1762F925BDADdC4201F984);
        }

        function unsafe_erc20_operations() public {
            e.approve(address(0), 200);
            e.transfer(address(0), 100);
            e.transferFrom(address(0), 100);
        }

    }
    