
    contract Contract {
        address owner;
        uint256 num0;
        bool bool0;
    }
    