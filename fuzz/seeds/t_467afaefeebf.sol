
    pragma solidity 0.8.14;
    
    contract Contract0 {
        function expensiveRevertStrings() {
            require(a < b, "long revert string over 32 bytes");
        }
    }
    