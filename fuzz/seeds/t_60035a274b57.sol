
    
    pragma solidity >= 0.8.0;
    contract Contract {
       
        uint256 thing = 100;
        address someAddress = address(0);
        bytes someBytes;
        
    
       
        function testFunction() public {
             thing = 1+2;
             someAddress = msg.sender;
             someBytes = bytes(0);


        }
    }
 
    