
    
contract Contract0 {
    function addressInternalBalance(){
        uint256 bal = address(this).balance;
        bal++;
    }

    function addressExternalBalance(address addr) public {
        uint256 bal = address(addr).balance;
        bal++;
    }
}

    