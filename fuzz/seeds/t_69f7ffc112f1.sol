
        contract Contract {
            address owner; // 160 bits
            uint256 num0;  // 256 bits
            bytes4 b0;     // 32 bits
            uint64 num1;   // 64 bits
        }
        