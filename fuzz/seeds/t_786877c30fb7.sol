
    
contract Contract0 {

    constructor(uint256 a, uint256 b){
        keccak256(abi.encodePacked(a, b));

    }

    function solidityHash(uint256 a, uint256 b) public view {
        //unoptimized
        keccak256(abi.encodePacked(a, b));
    }


    function assemblyHash(uint256 a, uint256 b) public view {
        //optimized
        assembly {
            mstore(0x00, a)
            mstore(0x20, b)
            let hashedVal := keccak256(0x00, 0x40)
        }
    }
}
    