

    //should not match
    struct Ex {
        uint256 spotPrice;
        uint128 res0;
        uint128 res1;
    }

    //should match
    struct Ex1 {
        bool isUniV2;
        bytes32 salt;
        bytes16 initBytecode;
    }
    

contract OrderRouter {
  
    
    //should not match
    struct Ex2 {
        bool isUniV2;
        address factoryAddress;
        bytes16 initBytecode;
    }

    //should match
    struct Ex3 {
        bool isUniV2;
        bytes32 salt;
        bytes16 initBytecode;
    }

    //should not match
    struct Ex4 {
        bytes16 initBytecode;
        bool isUniV2;
        address factoryAddress;
    }

    //should not match
    struct Ex5 {
        bool isUniV2;
        bytes16 initBytecode;
        address factoryAddress;
    }

    //should match
    struct Ex6 {
        uint128 thing3;
        uint256 thing1;
        uint128 thing2;
    }

    // Should match
    struct Ex7 {
        address owner; // 160 bits
        uint256 num0;  // 256 bits
        bytes4 b0;     // 32 bits
        uint64 num1;   // 64 bits
    }
}
    