
     pragma solidity >=0.8.13;
 
     contract Contract0 {
         function addressInternalBalance() public returns (uint256) {
 
             require(true, "some message");
 
             require(true && a==b, "some message");
             require(true && a==b && b==c, "thing");
 
             return address(this).balance;
         }
     }
     