

    contract Contract1 {


        //loop with i++
        function memoryArray(uint256[] memory arr) public {
            uint256 j;
            for (uint256 i; i < arr.length; i++) {
                j = arr[i] + 10;
            }
        }
    
        //loop with i++
        function calldataArray(uint256[] calldata arr) public {
            uint256 j;
            for (uint256 i; i < 100; i++) {
                j = arr[i] + arr.length;
            }
        }
    
        //loop with i++
        function memoryArray(uint256[] memory arr) public {
            uint256 j;
            for (uint256 i;  arr.length<1000; i++) {
                arr[i] = 10;
            }
        }
    
        }    
    