
    
    contract Contract0 {
        
        function msgSender() internal view returns(address) {
            return msg.sender;
        }

        function _msgSender() internal view returns(address) {
            return msg.sender;
        }

        function _msgData() private view returns(bytes calldata) {
            return msg.data;
        }

        function msgData() private view returns(bytes calldata) {
            return msg.data;
        }
    }
    