
    

    contract Contract0 {

        function div2(uint256 a, uint256 b) public pure {
            
        }

        function mul2(uint256 a, uint256 b) external view {
            
        }
    }
    