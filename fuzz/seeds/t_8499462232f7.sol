
        contract Contract {
            bytes24 b0;
            uint256 num0;
            bytes24 b1;
        }
        