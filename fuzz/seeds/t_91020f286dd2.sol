
    contract Contract {
        uint256 num0;
        uint256 num1;
        uint256 num2;
        bool bool0;
        bool bool1;
    }
    