
  
    contract Contract0 {
        function iPlusPlus(){
            uint256  i = 0;
            i++;
        }
    
        function plusPlusI() public {
            uint256  i = 0;
            ++i;
    
        for (uint256 j = 0; j < numNfts; ) {
                bytes32 hash = keccak256(abi.encode(ORDER_ITEM_HASH, nfts[i].collection, _tokensHash(nfts[i].tokens)));
                hashes[i] = hash;
                unchecked {
                  ++j;
                }
              }
    
            unchecked{
                i++;
            }
        }
        
    }
    
    