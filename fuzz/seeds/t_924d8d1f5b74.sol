
    pragma solidity 0.8.0;
    
    contract Contract0 {
        function expensiveRevertStrings() {
            require(a < b, "long revert string over 32 bytes");
        }

        function cheapRevertStrings() {
            require(a < b, "a");
        }

        function noRevertMessage() {
            require(a < b);
        }
    }
    