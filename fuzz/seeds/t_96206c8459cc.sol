
   
contract Contract1 {

    constructor(uint256[] memory arr){
        uint256 j;
        for (uint256 i; i < arr.length; i++) {
            j = arr[i] + 10;
        }
    }

    //loop with i++
    function memoryArray(uint256[] memory arr) public {
        uint256 j;
        for (uint256 i; i < arr.length; i++) {
            j = arr[i] + 10;
        }
    }

    //loop with i++
    function calldataArray(uint256[] calldata arr) public {
        uint256 j;
        for (uint256 i; i < arr.length; i++) {
            j = arr[i] + 10;
        }
    }

    //loop with i++
    function memoryArray2(uint256[] memory arr) public {
        uint256 j;
        for (uint256 i; i < arr.length; i++) {
            j = arr[i] + 10;
            arr[i] = j + 10;
        }
    }

    //loop with i++
    function memoryBytes(bytes memory byteArr) public {
        bytes j;
        for (uint256 i; i < arr.length; i++) {
            j = byteArr;
        }
    }

    //loop with i++
    function calldataBytes(bytes calldata byteArr) public {
        bytes j;
        for (uint256 i; i < arr.length; i++) {
            j = byteArr;
        }
    }


    //loop with i++
    function memoryBytes1(bytes memory byteArr) public {
        bytes j;
        for (uint256 i; i < arr.length; i++) {
            byteArr = j;
        }
    }

}
    