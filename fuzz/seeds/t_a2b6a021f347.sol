
    contract Contract0 {
        address public owner;
        receive() external payable {}
        constructor() {
            owner = address(1);
        }
    }
    