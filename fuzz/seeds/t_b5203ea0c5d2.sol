
    contract Contract0 {
        address public owner;
        function test() public {
            owner = address(0);
        }
        constructor() {
            owner = address(1);
        }
    }
    