
    
    pragma solidity >= 0.8.0;
    contract Contract {


        uint256 immutable num0;
        uint256 num1;
        uint256 num2;
        address addr1 = address(0);
        string str1;
        string str2;
        bytes b1;
        bytes b2;
        bytes b3;


        constructor(){
            num1 = 100;
            num2 = 100;
            str1 = "Test Name";
            str2 = "Another test content";
            b1 = abi.encode("Test content");
            b2 = abi.encodePacked("Test content");
            b3 = bytes("Vitalik");
        }

       
        function testFunction() public {
            addr1 = address(0);
            uint256 thing = num1;
            str2 = "i can no longer be immutable anymore";
        }
    }
 
    