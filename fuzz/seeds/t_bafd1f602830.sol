
    contract Contract0 {
        address public owner;
        function test() public {
            owner = address(0);
        }
    }
    