
    

    contract Contract0 {

        function boolEqualsBool0(bool check) public pure {
            if (check == true){
                return;
            }
        }


        function boolEqualsBool1(bool check) public pure {
            if (check == false){
                return;
            }
        }

        function boolEqualsBool2(bool check) public pure {
            if (false == check){
                return;
            }
        }

        function boolEqualsBool3(bool check) public pure {
            if (true == check){
                return;
            }
        }

        function boolEqualsBool4(bool check) public pure {
            if (check != true){
                return;
            }
        }


        function boolEqualsBool5(bool check) public pure {
            if (check != false){
                return;
            }
        }

        function boolEqualsBool6(bool check) public pure {
            if (false != check){
                return;
            }
        }

        function boolEqualsBool7(bool check) public pure {
            if (true != check){
                return;
            }
        }

    }
    