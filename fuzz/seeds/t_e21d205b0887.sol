

    contract Contract0 {

        function arithmetic_operations() public {
            1 / 2 * 3; // Unsafe
            1 * 2 / 3; // Safe
            (1 / 2) * 3; // Unsafe
            (1 * 2) / 3; // Safe
            (1 / 2 * 3) * 4; // Unsafe (x2)
            (1 * 2 / 3) * 4; // Unsafe
            (1 / 2 / 3) * 4; // Unsafe
            1 / (2 + 3) * 4; // Unsafe
            (1 / 2 + 3) * 4; // Safe
            (1 / 2 - 3) * 4; // Safe
            (1 + 2 / 3) * 4; // Safe
            (1 / 2 - 3) * 4; // Safe
            (1 / 2 % 3) * 4; // Safe
            (1 / 2 | 3) * 4; // Safe
            (1 / 2 & 3) * 4; // Safe
            (1 / 2 ^ 3) * 4; // Safe
            (1 / 2 << 3) * 4; // Safe
            (1 / 2 >> 3) * 4; // Safe
            1 / (2 * 3 + 3); // Safe
            1 / ((2 / 3) * 3); // Unsafe
            1 / ((2 * 3) + 3); // Safe

            uint256 x = 5;
            x /= 2 * 3; // Unsafe
            x /= 2 / 3; // Safe
            x /= (2 * 3); // Unsafe
            x /= (1 / 2) * 3; // Unsafe (x2)
            x /= (1 * 2) * 3; // Unsafe
            x /= (2 * 3) / 4; // Unsafe
            x /= 2 * 3 / 4; // Unsafe
            x /= 2 * 3 - 4; // Unsafe
            x /= 2 * 3 % 4; // Unsafe
            x /= 2 * 3 | 4; // Unsafe
            x /= 2 * 3 & 4; // Unsafe
            x /= 2 * 3 ^ 4; // Unsafe
            x /= 2 * 3 << 4; // Unsafe
            x /= 2 * 3 >> 4; // Unsafe
            x /= 3 / 4; // Safe
            x /= 3 - 4; // Safe
            x /= 3 % 4; // Safe
            x /= 3 | 4; // Safe
            x /= 3 & 4; // Safe
            x /= 3 ^ 4; // Safe
            x /= 3 << 4; // Safe
            x /= 3 >> 4; // Safe
        }

    }
    