
    
    contract Contract0 {

    }
    