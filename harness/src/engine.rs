//! Runner: tiers, seeds, sharded proptest streams, counters, evidence, replay
//! files, known findings, watchdog.

use proptest::strategy::{Strategy, ValueTree};
use proptest::test_runner::{Config, RngSeed, TestCaseError, TestError, TestRunner};
use serde_json::{json, Value};
use std::cell::{Cell, RefCell};
use std::collections::{BTreeMap, BTreeSet, HashSet};
use std::hash::{Hash, Hasher};
use std::path::PathBuf;
use std::sync::Mutex;
use std::time::Instant;

pub const SHARDS: usize = 16;

#[derive(Clone, Copy, PartialEq, Eq, Debug)]
pub enum Tier {
    Quick,
    Thorough,
}

impl Tier {
    pub fn name(self) -> &'static str {
        match self {
            Tier::Quick => "quick",
            Tier::Thorough => "thorough",
        }
    }
    /// pick a count by tier
    pub fn n(self, quick: u32, thorough: u32) -> u32 {
        match self {
            Tier::Quick => quick,
            Tier::Thorough => thorough,
        }
    }
}

#[derive(Clone, Debug)]
pub struct Violation {
    /// root-cause key (no white space); matched against KNOWN_FINDINGS.txt
    pub sig: String,
    /// one-line human description
    pub what: String,
    /// name of the stream / sub-check that produced it (used for replay dispatch)
    pub check: String,
    /// the concrete failing case, sufficient for `--replay`
    pub case: Value,
}

impl Violation {
    pub fn new(check: &str, sig: impl Into<String>, what: impl Into<String>, case: Value) -> Self {
        Violation {
            sig: sig.into().replace(char::is_whitespace, "_"),
            what: what.into(),
            check: check.to_string(),
            case,
        }
    }
}

pub struct Known {
    /// property -> signatures listed as `known:`
    pub known: Vec<(String, String, String)>,
}

impl Known {
    pub fn load(verif: &PathBuf) -> Known {
        let mut known = Vec::new();
        if let Ok(txt) = std::fs::read_to_string(verif.join("KNOWN_FINDINGS.txt")) {
            for line in txt.lines() {
                let line = line.trim();
                if let Some(rest) = line.strip_prefix("known:") {
                    let mut prop = String::new();
                    let mut sig = String::new();
                    let mut what = Vec::new();
                    for tok in rest.split_whitespace() {
                        if let Some(p) = tok.strip_prefix("property=") {
                            prop = p.to_string();
                        } else if let Some(s) = tok.strip_prefix("sig=") {
                            sig = s.to_string();
                        } else {
                            what.push(tok);
                        }
                    }
                    if !prop.is_empty() && !sig.is_empty() {
                        known.push((prop, sig, what.join(" ")));
                    }
                }
            }
        }
        Known { known }
    }
    pub fn lookup(&self, prop: &str, sig: &str) -> Option<&str> {
        self.known
            .iter()
            .find(|(p, s, _)| p == prop && s == sig)
            .map(|(_, _, w)| w.as_str())
    }
}

pub struct Env {
    pub prop: String,
    pub tier: Tier,
    pub seed: u64,
    pub verif: PathBuf,
    pub repo: PathBuf,
    pub profile: String,
    pub known: Known,
    pub start: Instant,
    /// in replay mode known findings are not filtered
    pub strict: bool,
}

impl Env {
    pub fn solstat_bin(&self) -> PathBuf {
        if let Ok(p) = std::env::var("VCHECK_SOLSTAT_BIN") {
            return PathBuf::from(p);
        }
        self.verif.join("target/solstat-bin/release/solstat")
    }
    pub fn sub_seed(&self, name: &str, shard: usize) -> u64 {
        let mut h = Fnv::default();
        self.seed.hash(&mut h);
        self.prop.hash(&mut h);
        name.hash(&mut h);
        shard.hash(&mut h);
        h.finish()
    }
}

/// FNV-1a: stable across processes (unlike `DefaultHasher` seeds we do not control).
#[derive(Clone)]
pub struct Fnv(u64);
impl Default for Fnv {
    fn default() -> Self {
        Fnv(0xcbf29ce484222325)
    }
}
impl Hasher for Fnv {
    fn finish(&self) -> u64 {
        self.0
    }
    fn write(&mut self, bytes: &[u8]) {
        for b in bytes {
            self.0 ^= *b as u64;
            self.0 = self.0.wrapping_mul(0x100000001b3);
        }
    }
}
pub fn fnv<T: Hash + ?Sized>(t: &T) -> u64 {
    let mut h = Fnv::default();
    t.hash(&mut h);
    h.finish()
}

#[derive(Default)]
pub struct Stats {
    pub evaluations: u64,
    pub nontrivial: HashSet<u64>,
    pub counters: BTreeMap<String, u64>,
    pub sets: BTreeMap<String, BTreeSet<String>>,
    pub samples: Vec<Value>,
    pub violations: Vec<Violation>,
    pub known_hits: BTreeMap<String, u64>,
    pub harness_errors: Vec<String>,
}

impl Stats {
    pub fn count(&mut self, key: &str) {
        *self.counters.entry(key.to_string()).or_insert(0) += 1;
    }
    pub fn add(&mut self, key: &str, n: u64) {
        *self.counters.entry(key.to_string()).or_insert(0) += n;
    }
    pub fn mark(&mut self, set: &str, member: &str) {
        self.sets.entry(set.to_string()).or_default().insert(member.to_string());
    }
    pub fn nontrivial<T: Hash + ?Sized>(&mut self, t: &T) {
        self.nontrivial.insert(fnv(t));
    }
    pub fn sample(&mut self, max: usize, f: impl FnOnce() -> Value) {
        if self.samples.len() < max {
            self.samples.push(f());
        }
    }
    pub fn merge(&mut self, o: Stats) {
        self.evaluations += o.evaluations;
        self.nontrivial.extend(o.nontrivial);
        for (k, v) in o.counters {
            *self.counters.entry(k).or_insert(0) += v;
        }
        for (k, v) in o.sets {
            self.sets.entry(k).or_default().extend(v);
        }
        for s in o.samples {
            if self.samples.len() < 6 {
                self.samples.push(s);
            }
        }
        self.violations.extend(o.violations);
        for (k, v) in o.known_hits {
            *self.known_hits.entry(k).or_insert(0) += v;
        }
        self.harness_errors.extend(o.harness_errors);
    }
}

/// Split violations into unknown ones and hits on listed known findings.
pub fn filter_known(env: &Env, stats: &mut Stats, vs: Vec<Violation>) -> Vec<Violation> {
    let mut out = Vec::new();
    for v in vs {
        if !env.strict && env.known.lookup(&env.prop, &v.sig).is_some() {
            *stats.known_hits.entry(v.sig.clone()).or_insert(0) += 1;
        } else {
            out.push(v);
        }
    }
    out
}

/// Run `f(shard, stats)` on SHARDS threads and merge.
pub fn par_shards<F>(total: &mut Stats, f: F)
where
    F: Fn(usize, &mut Stats) + Sync,
{
    let results: Mutex<Vec<Stats>> = Mutex::new(Vec::new());
    std::thread::scope(|s| {
        for shard in 0..SHARDS {
            let f = &f;
            let results = &results;
            std::thread::Builder::new()
                .stack_size(256 << 20)
                .spawn_scoped(s, move || {
                    let mut st = Stats::default();
                    f(shard, &mut st);
                    results.lock().unwrap().push(st);
                })
                .expect("spawn shard");
        }
    });
    for st in results.into_inner().unwrap() {
        total.merge(st);
    }
}

/// A proptest stream over byte tapes, sharded over all cores.
///
/// `oracle(tape, stats)` decodes the tape, classifies the case into `stats` and
/// returns every violation it sees.  Statistics are frozen at the first failure
/// of a shard so shrinking re-runs are not counted.
pub fn tape_stream<F>(env: &Env, total: &mut Stats, name: &str, cases: u32, max_len: usize, oracle: F)
where
    F: Fn(&[u8], &mut Stats) -> Vec<Violation> + Sync,
{
    value_stream(env, total, name, cases, || proptest::collection::vec(proptest::num::u8::ANY, 0..=max_len), |v: &Vec<u8>, st| oracle(v, st));
}

/// Generic sharded proptest stream.
pub fn value_stream<S, M, F>(env: &Env, total: &mut Stats, name: &str, cases: u32, mk: M, oracle: F)
where
    S: Strategy,
    M: Fn() -> S + Sync,
    S::Value: Clone + std::fmt::Debug,
    F: Fn(&S::Value, &mut Stats) -> Vec<Violation> + Sync,
{
    let per = (cases as usize + SHARDS - 1) / SHARDS;
    par_shards(total, |shard, st| {
        let strat = mk();
        let cfg = Config {
            cases: per as u32,
            rng_seed: RngSeed::Fixed(env.sub_seed(name, shard)),
            failure_persistence: None,
            max_shrink_iters: 1500,
            ..Config::default()
        };
        let mut runner = TestRunner::new(cfg);
        let failed = Cell::new(false);
        let live = RefCell::new(Stats::default());
        let result = runner.run(&strat, |v| {
            let vs = if failed.get() {
                let mut scratch = Stats::default();
                let vs = oracle(&v, &mut scratch);
                filter_known(env, &mut scratch, vs)
            } else {
                let mut l = live.borrow_mut();
                l.evaluations += 1;
                let vs = oracle(&v, &mut l);
                filter_known(env, &mut l, vs)
            };
            if let Some(first) = vs.first() {
                failed.set(true);
                Err(TestCaseError::fail(first.sig.clone()))
            } else {
                Ok(())
            }
        });
        st.merge(live.into_inner());
        match result {
            Ok(()) => {}
            Err(TestError::Fail(_, minimal)) => {
                let mut scratch = Stats::default();
                let vs = oracle(&minimal, &mut scratch);
                let vs = filter_known(env, &mut scratch, vs);
                if vs.is_empty() {
                    st.harness_errors
                        .push(format!("stream {name}: shrunk case no longer fails (flaky oracle?)"));
                } else {
                    st.violations.extend(vs.into_iter().take(3));
                }
            }
            Err(TestError::Abort(r)) => {
                st.harness_errors.push(format!("stream {name}: proptest aborted: {r}"));
            }
        }
    });
}

/// Deterministic sharded enumeration of `0..n`.
pub fn enum_stream<F>(env: &Env, total: &mut Stats, n: u64, oracle: F)
where
    F: Fn(u64, &mut Stats) -> Vec<Violation> + Sync,
{
    par_shards(total, |shard, st| {
        let mut i = shard as u64;
        while i < n {
            st.evaluations += 1;
            let vs = oracle(i, st);
            let vs = filter_known(env, st, vs);
            if !vs.is_empty() {
                st.violations.extend(vs.into_iter().take(3));
                if st.violations.len() > 8 {
                    break;
                }
            }
            i += SHARDS as u64;
        }
    });
}

/// Draw one value from a strategy deterministically (used by a few sequential drivers).
pub fn draw<S: Strategy>(strat: &S, seed: u64) -> S::Value {
    let cfg = Config { rng_seed: RngSeed::Fixed(seed), failure_persistence: None, ..Config::default() };
    let mut runner = TestRunner::new(cfg);
    strat.new_tree(&mut runner).expect("new_tree").current()
}

// ---------------------------------------------------------------------------------------
// panic capture

thread_local! {
    static LAST_PANIC: RefCell<Option<String>> = RefCell::new(None);
    static CAPTURING: Cell<bool> = Cell::new(false);
}

pub fn install_panic_hook() {
    let default = std::panic::take_hook();
    std::panic::set_hook(Box::new(move |info| {
        let capturing = CAPTURING.with(|c| c.get());
        if capturing {
            let site = info
                .location()
                .map(|l| {
                    let f = l.file();
                    let f = f.rsplit_once("/src/").map(|(_, b)| b).unwrap_or(f);
                    let krate = if l.file().contains("solang-parser") {
                        "solang-parser:"
                    } else if l.file().contains("/repo/") || l.file().starts_with("src/") {
                        "solstat:"
                    } else {
                        "other:"
                    };
                    format!("{krate}{f}:{}", l.line())
                })
                .unwrap_or_else(|| "unknown".to_string());
            LAST_PANIC.with(|p| *p.borrow_mut() = Some(site));
        } else {
            default(info);
        }
    }));
}

/// Run `f`; a panic is returned as `Err(site)` ("solstat:analyzer/utils.rs:185").
pub fn catch<T>(f: impl FnOnce() -> T) -> Result<T, String> {
    let prev = CAPTURING.with(|c| c.replace(true));
    let r = std::panic::catch_unwind(std::panic::AssertUnwindSafe(f));
    CAPTURING.with(|c| c.set(prev));
    match r {
        Ok(v) => Ok(v),
        Err(_) => Err(LAST_PANIC.with(|p| p.borrow_mut().take()).unwrap_or_else(|| "unknown".into())),
    }
}

// ---------------------------------------------------------------------------------------
// finishing: evidence, replay files, exit code

pub struct Meta {
    pub rule: String,
    pub assumptions: Vec<String>,
    pub extra: Value,
    /// floors: (description, actual, required)
    pub floors: Vec<(String, u64, u64)>,
}

pub fn finish(env: &Env, mut stats: Stats, meta: Meta) -> i32 {
    let wall = env.start.elapsed().as_secs_f64();
    // de-duplicate violations by signature
    let mut seen = BTreeSet::new();
    let mut unique = Vec::new();
    for v in std::mem::take(&mut stats.violations) {
        if seen.insert(v.sig.clone()) {
            unique.push(v);
        }
    }
    let mut code = 0;
    for (sig, n) in &stats.known_hits {
        let what = env.known.lookup(&env.prop, sig).unwrap_or("");
        println!("KNOWN-FINDING: property={} sig={} hits={} {}", env.prop, sig, n, what);
    }
    let replay_dir = env.verif.join("replays");
    let _ = std::fs::create_dir_all(&replay_dir);
    for v in &unique {
        let path = replay_dir.join(format!("{}-{:016x}.json", env.prop, fnv(&v.sig)));
        let doc = json!({
            "property": env.prop,
            "check": v.check,
            "signature": v.sig,
            "what": v.what,
            "seed": env.seed,
            "tier": env.tier.name(),
            "case": v.case,
        });
        let _ = std::fs::write(&path, serde_json::to_string_pretty(&doc).unwrap());
        println!("VIOLATION property={} replay={}", env.prop, path.display());
        println!("  signature: {}", v.sig);
        println!("  what: {}", v.what);
        code = 1;
    }
    for e in &stats.harness_errors {
        eprintln!("HARNESS-ERROR: {e}");
    }
    let mut floor_fail = Vec::new();
    for (d, actual, need) in &meta.floors {
        if actual < need {
            floor_fail.push(format!("{d}: {actual} < {need}"));
        }
    }
    if code == 0 && (!stats.harness_errors.is_empty() || !floor_fail.is_empty()) {
        for f in &floor_fail {
            eprintln!("VACUITY-GUARD: {f}");
        }
        code = 2;
    }
    let mut coverage = json!({
        "evaluations": stats.evaluations,
        "distinct_nontrivial": stats.nontrivial.len(),
        "rule": meta.rule,
        "samples": stats.samples,
        "counters": stats.counters,
        "classes": stats.sets.iter().map(|(k, v)| (k.clone(), json!({"count": v.len(), "members": v}))).collect::<serde_json::Map<_, _>>(),
        "known_finding_hits": stats.known_hits,
        "floors": meta.floors.iter().map(|(d, a, n)| json!({"what": d, "actual": a, "required": n})).collect::<Vec<_>>(),
        "profile": env.profile,
    });
    if let (Some(obj), Some(extra)) = (coverage.as_object_mut(), meta.extra.as_object()) {
        for (k, v) in extra {
            obj.insert(k.clone(), v.clone());
        }
    }
    let ev = json!({
        "property_id": env.prop,
        "tier": env.tier.name(),
        "seed": env.seed,
        "level": "exploration",
        "coverage": coverage,
        "assumptions": meta.assumptions,
        "wall_s": (wall * 1000.0).round() / 1000.0,
        "violations": unique.len(),
    });
    let evdir = env.verif.join("evidence");
    let _ = std::fs::create_dir_all(&evdir);
    let suffix = if env.profile == "release" { String::new() } else { format!(".{}", env.profile) };
    let path = evdir.join(format!("{}{}.json", env.prop, suffix));
    std::fs::write(&path, serde_json::to_string_pretty(&ev).unwrap()).expect("write evidence");
    eprintln!(
        "[{} {} seed={} profile={}] evaluations={} nontrivial={} violations={} known_hits={} wall={:.1}s -> exit {}",
        env.prop,
        env.tier.name(),
        env.seed,
        env.profile,
        stats.evaluations,
        stats.nontrivial.len(),
        unique.len(),
        stats.known_hits.values().sum::<u64>(),
        wall,
        code
    );
    code
}

pub fn start_watchdog(secs: u64) {
    std::thread::spawn(move || {
        std::thread::sleep(std::time::Duration::from_secs(secs));
        eprintln!("INCONCLUSIVE: watchdog budget of {secs}s exhausted");
        std::process::exit(2);
    });
}

/// Regression files committed under /verif/regressions/<ID>/.
pub fn regression_cases(env: &Env) -> Vec<(String, String, Value)> {
    let dir = env.verif.join("regressions").join(&env.prop);
    let mut out = Vec::new();
    let mut names: Vec<_> = match std::fs::read_dir(&dir) {
        Ok(rd) => rd.filter_map(|e| e.ok()).map(|e| e.path()).collect(),
        Err(_) => return out,
    };
    names.sort();
    for p in names {
        if p.extension().and_then(|e| e.to_str()) != Some("json") {
            continue;
        }
        if let Ok(txt) = std::fs::read_to_string(&p) {
            if let Ok(v) = serde_json::from_str::<Value>(&txt) {
                let check = v.get("check").and_then(|c| c.as_str()).unwrap_or("").to_string();
                let case = v.get("case").cloned().unwrap_or(Value::Null);
                out.push((p.file_name().unwrap().to_string_lossy().to_string(), check, case));
            }
        }
    }
    out
}

// ---------------------------------------------------------------------------------------
// coverage-guided fuzzing supplement (thorough tier): the check script runs libFuzzer first and
// points us at its corpus / artifact directories and log; every input found is re-executed
// through the oracle in-process so a crash becomes an ordinary replayable violation.

pub struct FuzzInputs {
    pub inputs: Vec<(String, Vec<u8>)>,
    pub stats: serde_json::Value,
}

pub fn fuzz_inputs() -> Option<FuzzInputs> {
    let dirs = std::env::var("VCHECK_FUZZ_DIRS").ok()?;
    let mut inputs = Vec::new();
    for d in dirs.split(':').filter(|d| !d.is_empty()) {
        if let Ok(rd) = std::fs::read_dir(d) {
            let mut paths: Vec<_> = rd.filter_map(|e| e.ok()).map(|e| e.path()).filter(|p| p.is_file()).collect();
            paths.sort();
            for p in paths {
                if let Ok(b) = std::fs::read(&p) {
                    inputs.push((p.display().to_string(), b));
                }
            }
        }
    }
    let mut executed = 0u64;
    let mut cov = 0u64;
    let mut crashes = 0u64;
    let mut status = "no log".to_string();
    if let Ok(log) = std::env::var("VCHECK_FUZZ_LOG") {
        if let Ok(txt) = std::fs::read_to_string(&log) {
            status = "ran".into();
            for line in txt.lines() {
                if let Some(n) = line.strip_prefix("stat::number_of_executed_units:") {
                    executed += n.trim().parse::<u64>().unwrap_or(0);
                }
                if let Some(i) = line.find(" cov: ") {
                    let n: String = line[i + 6..].chars().take_while(|c| c.is_ascii_digit()).collect();
                    cov = cov.max(n.parse().unwrap_or(0));
                }
                if line.contains("VIOLATION-IN-FUZZ") || line.contains("ERROR: libFuzzer") {
                    crashes += 1;
                }
                if line.contains("FUZZ-BUILD-FAILED") {
                    status = "fuzz build failed: fuzz part not run".into();
                }
            }
        }
    }
    Some(FuzzInputs { stats: json!({"engine": "libFuzzer (cargo fuzz)", "status": status, "executions": executed, "edge_coverage": cov, "crash_lines_in_log": crashes, "inputs_replayed_through_oracle": inputs.len()}), inputs })
}
