//! Findings maps (DESIGN 3.4): any subset of patterns, 0-4 files per pattern (a key with an
//! empty file vector has no finding; the renderers guard for it), occasionally 250-300 files under one
//! pattern; a file entry with an empty line set only next to entries that do have lines.

use crate::patterns::{self, Pat};
use proptest::prelude::*;
use solstat::analyzer::optimizations::Optimization;
use solstat::analyzer::qa::QualityAssurance;
use solstat::analyzer::vulnerabilities::Vulnerability;
use std::collections::{BTreeSet, HashMap};

/// (pattern name, [(file name, lines)]) in insertion order
pub type Findings = Vec<(String, Vec<(String, BTreeSet<i32>)>)>;

pub fn names_of(category: &str) -> Vec<&'static str> {
    patterns::all().into_iter().filter(|p| p.category() == category).map(|p| p.name).collect()
}

pub fn file_name() -> impl Strategy<Value = String> {
    prop_oneof![
        6 => "[a-zA-Z][a-zA-Z0-9_]{0,10}\\.sol",
        2 => Just("Token.sol".to_string()),
        1 => Just("Counter.t.sol".to_string()),
        1 => Just("Vault.T.sol".to_string()),
        1 => Just("README.md".to_string()),
        1 => "[a-z]{1,4}:[0-9]{1,3}\\.sol",
        1 => Just("- item.sol".to_string()),
        1 => Just("# Heading.sol".to_string()),
        1 => Just("### Lines".to_string()),
        1 => Just("## High Risk".to_string()),
        1 => Just("a b  c.sol".to_string()),
        1 => Just("x.sol:12".to_string()),
        1 => Just(":".to_string()),
        1 => Just("- a:1".to_string()),
        1 => "[a-z]{60,120}\\.sol",
        // markup-like and bidirectional control characters
        1 => prop::sample::select(vec!["Vault<T>.sol", "a<b>c.sol", "<>.sol", "a&b.sol", "&lt;.sol", "a*b*.sol", "`tick`.sol", "[l](x).sol", "a\\b.sol", "x\u{202e}y.sol", "\u{2066}z\u{2069}.sol", "a\tb.sol", "_a_.sol", "a|b.sol", "{total}.sol", "{}.sol", "{0}.sol", "%s.sol", "$1.sol", "\\1.sol", "${total}.sol", "{{total}}.sol"]).prop_map(|s| s.to_string()),
        // names that coincide under a coarser comparison (letter case, numeric value of digit runs)
        2 => prop::sample::select(vec!["token.sol", "TOKEN.sol", "Token.SOL", "Vault_v1.sol", "Vault_v01.sol", "Vault_v001.sol", "V18446744073709551616.sol", "V18446744073709551617.sol", "stra\u{df}e.sol", "STRASSE.sol", "strasse.sol"]).prop_map(|s| s.to_string()),
        2 => "\\PC{1,16}".prop_filter("no line breaks", |s| !s.contains('\n') && !s.contains('\r') && !s.is_empty()),
    ]
}

pub fn line_set() -> impl Strategy<Value = BTreeSet<i32>> {
    prop::collection::btree_set(prop_oneof![6 => 1..60i32, 1 => 0..=i32::MAX, 1 => Just(0i32), 1 => Just(i32::MAX)], 1..5)
}

/// The (file, lines) vector of one pattern; `allow_empty` also yields the empty vector.
pub fn files(allow_empty: bool) -> impl Strategy<Value = Vec<(String, BTreeSet<i32>)>> {
    prop_oneof![
        24 => prop::collection::vec((file_name(), line_set()), 1..5),
        (if allow_empty { 4 } else { 0 }) => Just(Vec::new()),
        // an entry without lines next to entries with lines (it lists nothing and changes nothing)
        3 => (prop::collection::vec((file_name(), line_set()), 1..4), file_name(), 0usize..4).prop_map(|(mut v, n, at)| {
            let at = at.min(v.len());
            v.insert(at, (n, BTreeSet::new()));
            v
        }),
        // many files under one pattern (sizes around 256)
        1 => prop::collection::vec(("[a-z]{1,6}\\.sol", line_set()), 250..300),
        // groups of entries that tie under a coarser sort key: the same line set under names that
        // differ only in letter case / number spelling (or not at all)
        3 => (prop::sample::subsequence(vec!["Token.sol", "token.sol", "TOKEN.sol", "Vault_v1.sol", "Vault_v01.sol", "Vault_v001.sol", "Token.sol", "Token.sol.sol", "Token", "Token.sol ", " Token.sol", "Token.SOL", "./Token.sol"], 2..=6), line_set(), prop::collection::vec((file_name(), line_set()), 0..3)).prop_map(|(names, lines, mut rest)| {
            for n in names {
                rest.push((n.to_string(), lines.clone()));
            }
            rest
        }).prop_shuffle(),
        // more than 32 entries under few names with different line sets (sorting networks and
        // insertion sorts for short slices behave stably; longer slices do not)
        2 => prop::collection::vec((prop::sample::select(vec!["Dup.sol", "dup.sol", "Other.sol"]).prop_map(|s| s.to_string()), line_set()), 33..90),
    ]
}

pub fn findings(category: &'static str, min_patterns: usize) -> impl Strategy<Value = Findings> {
    let names = names_of(category);
    let n = names.len();
    prop::sample::subsequence(names, min_patterns.min(n)..=n).prop_shuffle().prop_flat_map(|chosen| {
        let per: Vec<_> = chosen
            .into_iter()
            .map(|name| (Just(name.to_string()), files(true)))
            .collect();
        per
    })
}

pub fn to_opt_map(f: &Findings) -> HashMap<Optimization, Vec<(String, BTreeSet<i32>)>> {
    let mut m = HashMap::new();
    for (name, files) in f {
        if let Some(p) = patterns::by_name(name) {
            if let Pat::Opt(o) = p.pat {
                m.insert(o, files.clone());
            }
        }
    }
    m
}

pub fn to_vuln_map(f: &Findings) -> HashMap<Vulnerability, Vec<(String, BTreeSet<i32>)>> {
    let mut m = HashMap::new();
    for (name, files) in f {
        if let Some(p) = patterns::by_name(name) {
            if let Pat::Vuln(o) = p.pat {
                m.insert(o, files.clone());
            }
        }
    }
    m
}

pub fn to_qa_map(f: &Findings) -> HashMap<QualityAssurance, Vec<(String, BTreeSet<i32>)>> {
    let mut m = HashMap::new();
    for (name, files) in f {
        if let Some(p) = patterns::by_name(name) {
            if let Pat::Qa(o) = p.pat {
                m.insert(o, files.clone());
            }
        }
    }
    m
}

/// Render a findings list with the renderer of its category.
pub fn render(category: &str, f: &Findings) -> String {
    match category {
        "optimizations" => solstat::report::optimization_report::generate_optimization_report(to_opt_map(f)),
        "vulnerabilities" => solstat::report::vulnerability_report::generate_vulnerability_report(to_vuln_map(f)),
        _ => solstat::report::qa_report::generate_qa_report(to_qa_map(f)),
    }
}

pub fn to_json(f: &Findings) -> serde_json::Value {
    serde_json::json!(f
        .iter()
        .map(|(n, files)| serde_json::json!({"pattern": n, "files": files.iter().map(|(f, l)| serde_json::json!({"file": f, "lines": l})).collect::<Vec<_>>()}))
        .collect::<Vec<_>>())
}

pub fn from_json(v: &serde_json::Value) -> Findings {
    let mut out = Vec::new();
    if let Some(a) = v.as_array() {
        for p in a {
            let name = p.get("pattern").and_then(|x| x.as_str()).unwrap_or("").to_string();
            let mut files = Vec::new();
            if let Some(fs) = p.get("files").and_then(|x| x.as_array()) {
                for f in fs {
                    let file = f.get("file").and_then(|x| x.as_str()).unwrap_or("").to_string();
                    let lines: BTreeSet<i32> = f
                        .get("lines")
                        .and_then(|x| x.as_array())
                        .map(|a| a.iter().filter_map(|n| n.as_i64().map(|n| n as i32)).collect())
                        .unwrap_or_default();
                    files.push((file, lines));
                }
            }
            out.push((name, files));
        }
    }
    out
}
