//! Token-preserving re-layout of a source text (DESIGN 3.2).
//!
//! The text is tokenised with the parser's own lexer; a layout chooses one
//! separator per token gap (plus head and tail).  Self-check: re-lexing the
//! laid-out text must give the identical token sequence.

use crate::tape::Tape;
use solang_parser::lexer::{Lexer, Token};

#[derive(Clone, Debug, PartialEq, Eq)]
pub struct Tok {
    pub text: String,
    /// inside a pragma directive (between `pragma` and its `;`): only white space may be inserted
    pub in_pragma: bool,
}

/// Tokenise; `None` if the lexer reports an error or panics.
pub fn tokenize(src: &str) -> Option<Vec<Tok>> {
    let r = std::panic::catch_unwind(|| {
        let mut comments = Vec::new();
        let lex = Lexer::new(src, 0, &mut comments);
        let mut toks = Vec::new();
        let mut in_pragma = false;
        for item in lex {
            match item {
                Ok((s, t, e)) => {
                    if let Token::Pragma = t {
                        in_pragma = true;
                    }
                    let this_in = in_pragma;
                    if let Token::Semicolon = t {
                        in_pragma = false;
                    }
                    toks.push(Tok { text: src[s..e].to_string(), in_pragma: this_in });
                }
                Err(_) => return None,
            }
        }
        Some(toks)
    });
    r.ok().flatten()
}

const COMMENT_BODIES: &[&str] = &[
    " a >= b; selfdestruct(msg.sender); x = x + 1; ",
    " pragma solidity ^0.8.0; ",
    " require(a && b, \"x\"); i++; ",
    " token.transfer(a, b) / c * d ",
    " h\u{e9}llo \u{4e16}\u{754c} \u{1f600} address(0) == a ",
    " constructor() {} function f() public {} ",
    " keccak256(abi.encode(x)) arr.length ",
    "",
    " \"unterminated string ",
    " uint256 s1; s1 = 5; ",
    " line\u{2028}separator and paragraph\u{2029}separator and next\u{85}line are not line feeds ",
];

#[derive(Clone, Copy, Debug, PartialEq, Eq)]
pub enum Fixed {
    /// one token per line: token k (0-based) is on line k+1
    OnePerLine,
    /// everything on one line, single spaces, no final newline
    OneLine,
    /// CRLF after every token
    Crlf,
    /// one token per line but the last line is not newline-terminated
    OnePerLineNoFinalNewline,
}

pub fn fixed_layout(toks: &[Tok], f: Fixed) -> String {
    let mut s = String::new();
    for (i, t) in toks.iter().enumerate() {
        s.push_str(&t.text);
        let last = i + 1 == toks.len();
        match f {
            Fixed::OnePerLine => s.push('\n'),
            Fixed::OneLine => {
                if !last {
                    s.push(' ')
                }
            }
            Fixed::Crlf => s.push_str("\r\n"),
            Fixed::OnePerLineNoFinalNewline => {
                if !last {
                    s.push('\n')
                }
            }
        }
    }
    s
}

/// Classes of separators used, for the evidence.
#[derive(Default, Clone, Debug)]
pub struct LayoutInfo {
    pub comments: usize,
    pub crlf: usize,
    pub multibyte: usize,
    pub touching: usize,
    pub final_newline: bool,
    pub lone_cr: usize,
    pub pragma_value_respaced: usize,
    /// comments written inside a pragma value (for this lexer they are part of the value token)
    pub pragma_comments: usize,
}

/// Comments that may stand inside a pragma directive: no `;` (it would end the directive), but
/// carets and versions that must not count.
const PRAGMA_COMMENTS: &[&str] = &[
    "/* ^0.7.0 */", "/* was 0.7.6 */", "/* until 0.9.0 */", "/* >=0.4.0 <0.6.0 */", "/* ^ */", "/**/", "// ^0.5.0\n", "// 1.2.3 \n", "/* \u{e9}\u{4e16} ^1.0.0 */", "/* 0.8.4\n0.7.0 */", "/*/ was 0.7.0 before */", "/*/ ^0.9.1 */", "/* 0.7.1 **/", "/***/",
];

/// A pragma value without its comments, white space normalised.
pub fn normalise_pragma_value(s: &str) -> String {
    crate::refmodel::detect::pragma_value_without_comments(s).split_whitespace().collect::<Vec<_>>().join(" ")
}

/// A random layout driven by the tape.  Returns the text and per-token byte offsets.
pub fn random_layout(toks: &[Tok], t: &mut Tape) -> (String, Vec<usize>, LayoutInfo) {
    let style = t.below(5); // 0 sparse, 1 dense newlines, 2 comment heavy, 3 crlf, 4 compact
    let mut info = LayoutInfo::default();
    let mut seps: Vec<String> = Vec::with_capacity(toks.len() + 1);
    for gap in 0..=toks.len() {
        let ws_only = (gap > 0 && gap < toks.len() && toks[gap - 1].in_pragma && toks[gap].in_pragma)
            || (gap < toks.len() && toks[gap].in_pragma && gap > 0 && toks[gap - 1].in_pragma);
        let head = gap == 0;
        let tail = gap == toks.len();
        let choice = match style {
            0 => *t.pick(&[0usize, 0, 0, 1, 1, 3, 5, 6, 7, 10]),
            1 => *t.pick(&[1usize, 1, 1, 5, 0, 4, 6, 8]),
            2 => *t.pick(&[6usize, 7, 8, 9, 11, 0, 1, 12]),
            3 => *t.pick(&[4usize, 4, 0, 13, 6, 7, 14]),
            _ => *t.pick(&[2usize, 2, 0, 2, 1, 7]),
        };
        let nl = if style == 3 { "\r\n" } else { "\n" };
        let mut sep = match choice {
            0 => " ".to_string(),
            1 => nl.to_string(),
            2 => String::new(),
            3 => "\t".to_string(),
            4 => "\r\n".to_string(),
            5 => format!("{nl}{nl}"),
            6 => format!(" //{}{nl}", t.pick(COMMENT_BODIES)),
            7 => format!(" /*{}*/ ", t.pick(COMMENT_BODIES)),
            8 => format!("{nl}///{}{nl}", t.pick(COMMENT_BODIES)),
            9 => format!(" /**{}\n * more\n */{nl}", t.pick(COMMENT_BODIES)),
            10 => format!("  {nl}\t"),
            11 => format!(" /* \u{e9}\u{4e16} */{nl}// \u{1f600} x >= y{nl}"),
            12 => format!("/*{}*/", t.pick(COMMENT_BODIES)),
            13 => " \r ".to_string(),
            _ => format!("\r\n\r\n  "),
        };
        if ws_only && sep.contains('/') {
            sep = if sep.contains('\n') { nl.to_string() } else { " ".to_string() };
        }
        if (head || tail) && sep.is_empty() {
            // fine: nothing before the first / after the last token
        }
        if sep.contains("/*") || sep.contains("//") {
            info.comments += 1;
        }
        if sep.contains("\r\n") {
            info.crlf += 1;
        }
        if sep.contains(" \r ") {
            info.lone_cr += 1;
        }
        if !sep.is_ascii() {
            info.multibyte += 1;
        }
        if sep.is_empty() && !head && !tail {
            info.touching += 1;
        }
        seps.push(sep);
    }
    // the value of a pragma is one lexer token, but the blanks between its version constraints are
    // layout all the same: each run of blanks inside it becomes a tape-chosen run of white space
    let mut texts: Vec<String> = toks.iter().map(|tk| tk.text.clone()).collect();
    for (i, tk) in toks.iter().enumerate() {
        let is_value = tk.in_pragma && i >= 2 && toks[i - 2].text == "pragma";
        if is_value && (tk.text.contains(' ') || style == 2 || t.chance(40)) {
            let parts: Vec<&str> = tk.text.split(' ').filter(|p| !p.is_empty()).collect();
            let commented = style == 2 || t.chance(60);
            let mut v = String::new();
            if commented && t.chance(110) {
                v.push_str(*t.pick(PRAGMA_COMMENTS));
                v.push(' ');
                info.pragma_comments += 1;
            }
            for (k, part) in parts.iter().enumerate() {
                if k > 0 {
                    v.push_str(*t.pick(&[" ", " ", "\t", "\n", "  ", "\r\n", " \t ", "\n\n"]));
                    if commented && t.chance(90) {
                        v.push_str(*t.pick(PRAGMA_COMMENTS));
                        v.push(' ');
                        info.pragma_comments += 1;
                    }
                }
                // a comment may also stand between an operator and its version (`^ /* min */ 0.8.4`)
                let op_len = part.chars().take_while(|c| "^~=<>".contains(*c)).count();
                if commented && op_len > 0 && op_len < part.len() && t.chance(70) {
                    v.push_str(&part[..op_len]);
                    v.push(' ');
                    v.push_str(*t.pick(PRAGMA_COMMENTS));
                    v.push(' ');
                    v.push_str(&part[op_len..]);
                    info.pragma_comments += 1;
                } else {
                    v.push_str(part);
                }
            }
            if commented && t.chance(110) {
                v.push(' ');
                v.push_str(*t.pick(PRAGMA_COMMENTS));
                info.pragma_comments += 1;
            }
            if v != tk.text {
                info.pragma_value_respaced += 1;
            }
            texts[i] = v;
        }
    }
    let build = |seps: &[String]| {
        let mut s = String::new();
        let mut offs = Vec::with_capacity(toks.len());
        for (i, _tk) in toks.iter().enumerate() {
            s.push_str(&seps[i]);
            offs.push(s.len());
            s.push_str(&texts[i]);
        }
        s.push_str(&seps[toks.len()]);
        (s, offs)
    };
    let (mut text, mut offs) = build(&seps);
    if !same_tokens(&text, toks) {
        // touching tokens merged: replace empty separators by a blank
        for (i, s) in seps.iter_mut().enumerate() {
            if s.is_empty() && i != 0 && i != toks.len() {
                *s = " ".to_string();
            }
        }
        info.touching = 0;
        let (t2, o2) = build(&seps);
        text = t2;
        offs = o2;
    }
    info.final_newline = text.ends_with('\n');
    (text, offs, info)
}

pub fn same_tokens(text: &str, toks: &[Tok]) -> bool {
    // pragma values are compared modulo the white space and the comments between their constraints
    // (a blank between an operator and its version does not count either)
    let norm = |s: &str| normalise_pragma_value(s).replace("^ ", "^").replace("~ ", "~").replace("= ", "=").replace("> ", ">").replace("< ", "<");
    match tokenize(text) {
        Some(t2) => t2.len() == toks.len() && t2.iter().zip(toks).all(|(a, b)| a.text == b.text || (a.in_pragma && b.in_pragma && norm(&a.text) == norm(&b.text))),
        None => false,
    }
}

/// Byte offsets of the tokens of a fixed layout.
pub fn offsets_of(text: &str, toks: &[Tok]) -> Vec<usize> {
    let mut offs = Vec::with_capacity(toks.len());
    let mut pos = 0;
    for t in toks {
        let at = text[pos..].find(&t.text).map(|i| i + pos).unwrap_or(pos);
        offs.push(at);
        pos = at + t.text.len();
    }
    offs
}
