//! Bounded-exhaustive "slot matrix" (DESIGN 3.1): for every child slot of every
//! parse-tree variant a minimal accepted program with a *marker* in that slot,
//! for each marker kind.  `@` = expression slot, `#` = statement slot, `$` = type slot.

pub const EXPR_MARKERS: &[&str] = &[
    "a >= b",
    "a + b",
    "x = 1",
    "i ++",
    "++ i",
    "arr . length",
    "f ( a )",
    "keccak256 ( a )",
    "1024",
    "a == true",
    "a * 2",
    "token . transfer ( a , b )",
    "x /= a * b",
    "c ? a : b",
    "- a",
    "a ** b",
    "-- s1",
    "s1 += 2",
];

pub const STMT_MARKERS: &[&str] = &[
    "x = a >= b ;",
    "if ( a >= b ) { i ++ ; }",
    "{ s1 += 1 ; }",
    "unchecked { ++ i ; }",
    "for ( ; i < arr . length ; ) { }",
    "return a + b ;",
    "uint256 v = a * 2 ;",
    "s1 = 5 ;",
];

pub const TYPE_MARKERS: &[&str] = &[
    "uint256 [ a >= b ]",
    "mapping ( uint256 => uint256 [ a + b ] )",
    "function ( uint256 [ i ++ ] ) external",
    "uint8 [ s1 = 2 ]",
];

fn fnbody(s: &str) -> String {
    format!("contract C {{ uint256 s1 ; function f ( ) public {{ {s} }} }}")
}
fn exprstmt(e: &str) -> String {
    fnbody(&format!("{e} ;"))
}
fn member(m: &str) -> String {
    format!("contract C {{ uint256 s1 ; {m} }}")
}

/// All templates (text with exactly one of `@`, `#`, `$`).
pub fn templates() -> Vec<String> {
    let mut t: Vec<String> = Vec::new();
    // binary operators, both operand slots
    for op in [
        "||", "&&", "==", "!=", "<", ">", "<=", ">=", "|", "^", "&", "<<", ">>", "+", "-", "*", "/", "%", "**",
    ] {
        t.push(exprstmt(&format!("y = @ {op} b")));
        t.push(exprstmt(&format!("y = a {op} @")));
    }
    for op in ["=", "|=", "^=", "&=", "<<=", ">>=", "+=", "-=", "*=", "/=", "%="] {
        t.push(exprstmt(&format!("@ {op} b")));
        t.push(exprstmt(&format!("y {op} @")));
    }
    for op in ["!", "~", "delete", "++", "--", "+", "-", "new"] {
        t.push(exprstmt(&format!("y = {op} @")));
    }
    for e in [
        "y = @ ++",
        "y = @ --",
        "y = @ ? a : b",
        "y = c ? @ : b",
        "y = c ? a : @",
        "y = @ [ a ]",
        "y = a [ @ ]",
        "y = @ [ a : b ]",
        "y = a [ @ : b ]",
        "y = a [ b : @ ]",
        "y = a [ @ : ]",
        "y = a [ : @ ]",
        "y = @ . m",
        "y = @ ( a )",
        "y = g ( @ )",
        "y = g ( a , @ )",
        "y = g ( a , b , @ )",
        "y = g ( { p : @ } )",
        "y = g ( { p : a , q : @ } )",
        "y = @ ( { p : a } )",
        "y = g { value : @ } ( a )",
        "y = g { value : a , gas : @ } ( a )",
        "y = @ { value : a } ( b )",
        "y = g { value : a } ( @ )",
        "y = [ @ , a ]",
        "y = [ a , @ ]",
        "y = [ @ ]",
        "( @ , a ) = g ( )",
        "( a , @ ) = g ( )",
        "( , @ , ) = g ( )",
        "y = ( @ )",
        "y = ( ( @ ) )",
        "y = @ ether",
        "y = uint256 ( @ )",
        "y = payable ( @ )",
        "y = address ( @ ) . balance",
        "y = abi . decode ( @ , ( uint256 , address ) )",
        "y = type ( $ ) . max",
        "y = new C ( @ )",
        "y = new uint256 [ ] ( @ )",
        "y = new C { salt : @ } ( a )",
        "g ( ) . h ( @ ) . k ( a )",
    ] {
        t.push(exprstmt(e));
    }
    // statements
    for s in [
        "if ( @ ) { }",
        "if ( c ) # else { }",
        "if ( c ) { } else #",
        "if ( c ) # else #",
        "if ( c ) { } else if ( @ ) { }",
        "while ( @ ) { }",
        "while ( c ) #",
        "do # while ( c ) ;",
        "do { } while ( @ ) ;",
        "for ( @ ; ; ) { }",
        "for ( ; @ ; ) { }",
        "for ( ; ; @ ) { }",
        "for ( ; ; ) #",
        "for ( uint256 q = @ ; ; ) { }",
        "for ( $ q ; ; ) { }",
        "for ( ; @ ; ) ;",
        "for ( ; ; @ ) ;",
        "return @ ;",
        "return ( @ , a ) ;",
        "revert ( @ ) ;",
        "revert ( a , @ ) ;",
        "revert E ( @ ) ;",
        "revert A . E ( a , @ ) ;",
        "revert E ( { p : @ } ) ;",
        "revert ( { p : a , q : @ } ) ;",
        "emit E ( @ ) ;",
        "emit E ( a , @ ) ;",
        "emit @ ( a ) ;",
        "uint256 v = @ ;",
        "$ v ;",
        "$ memory v = a ;",
        "( $ v , uint256 w ) = g ( ) ;",
        "( uint256 v , $ w ) = g ( ) ;",
        "try this . g ( @ ) { } catch { }",
        "try @ ( a ) { } catch { }",
        "try new C ( @ ) { } catch { }",
        "try this . g ( ) returns ( $ v ) { } catch { }",
        "try this . g ( ) returns ( uint256 u , , $ v ) { } catch { }",
        "try this . g ( ) returns ( uint256 v ) { # } catch { }",
        "try this . g ( ) { } catch { # }",
        "try this . g ( ) { } catch ( $ memory e ) { }",
        "try this . g ( ) { } catch ( bytes memory e ) { # }",
        "try this . g ( ) { } catch Error ( $ e ) { }",
        "try this . g ( ) { } catch Error ( string memory e ) { # }",
        "try this . g ( ) { } catch Error ( string memory e ) { } catch { # }",
        "try this . g ( ) { } catch Panic ( uint256 e ) { # } catch ( bytes memory e ) { # }",
        "unchecked { # }",
        "unchecked { { # } }",
        "unchecked { if ( c ) # }",
        "{ # }",
        "{ { # } }",
        "{ k : @ }",
        "{ k : a , v : @ }",
        "assembly { let r := add ( 1 , 2 ) } #",
    ] {
        t.push(fnbody(s));
    }
    // members
    for m in [
        "$ v ;",
        "$ public v ;",
        "uint256 v = @ ;",
        "uint256 constant v = @ ;",
        "mapping ( $ => uint256 ) v ;",
        "mapping ( uint256 => $ ) v ;",
        "mapping ( uint256 => mapping ( $ => bool ) ) v ;",
        "function g ( $ p ) public { }",
        "function g ( uint256 p , $ q ) public { }",
        "function g ( uint256 p , , $ q ) public { }",
        "function g ( , $ q ) public { }",
        "function g ( ) public returns ( uint256 , , $ ) { }",
        "constructor ( uint256 p , , $ q ) { }",
        "modifier m ( , $ q ) { _ ; }",
        "function g ( $ ) external ;",
        "function g ( ) public returns ( $ r ) { }",
        "function g ( ) public returns ( uint256 , $ ) { }",
        "function g ( ) public m ( @ ) { }",
        "function g ( ) public m ( a , @ ) { }",
        "function g ( ) m ( a ) public A . m2 ( @ ) returns ( uint256 ) { }",
        "function g ( ) public virtual override ( A , B ) m ( @ ) ;",
        "function g ( ) public { # }",
        "function g ( ) public pure { return @ ; }",
        "function g ( ) { k : @ }",
        "constructor ( $ p ) { }",
        "constructor ( ) Base ( @ ) { }",
        "constructor ( ) Base ( a ) Other ( b , @ ) public { }",
        "constructor ( ) { # }",
        "modifier m ( $ p ) { _ ; }",
        "modifier m ( ) { # _ ; }",
        "modifier m { _ ; # }",
        "modifier m ( ) n ( @ ) { _ ; }",
        "fallback ( ) external { # }",
        "fallback ( $ p ) external returns ( $ r ) { }",
        "fallback ( ) external m ( @ ) { }",
        "receive ( ) external payable { # }",
        "receive ( ) external payable m ( @ ) { }",
        "struct S { $ v ; }",
        "struct S { uint256 u ; $ v ; }",
        "event E ( $ v ) ;",
        "event E ( uint256 indexed u , $ indexed v ) anonymous ;",
        "error E ( $ v ) ;",
        "error E ( uint256 u , $ v ) ;",
        "type T is $ ;",
        "using L for $ ;",
        "using { g } for $ ;",
        "function ( $ ) external v ;",
        "function ( uint256 ) external returns ( $ ) v ;",
        "function ( uint256 ) external v = @ ;",
        "constructor ( ) returns ( $ r ) { }",
        "modifier m ( ) returns ( $ r ) { _ ; }",
        "function g ( ) public sel = 1024 { # }",
        "constructor ( ) sel = 1024 { # }",
        "modifier m ( ) sel = 1024 { # _ ; }",
        "fallback ( ) external sel = 1024 { # }",
        "function ( uint256 p ) public { # }",
    ] {
        t.push(member(m));
    }
    // file level
    for f in [
        "contract C is B ( @ ) { }",
        "contract C is A , B ( a , @ ) { }",
        "abstract contract C is B ( @ ) { }",
        "library L { function g ( ) internal { # } }",
        "interface I { function g ( $ p ) external returns ( $ r ) ; }",
        "function g ( $ p ) pure { }",
        "function g ( uint256 p , , $ q ) pure { }",
        "function g ( ) pure returns ( $ r ) { }",
        "function g ( ) m ( @ ) { }",
        "function g ( ) { # }",
        "function g ( ) ;",
        "function g ( ) sel = 1024 { # }",
        "uint256 constant K = @ ;",
        "$ constant K = 1 ;",
        "struct S { $ v ; }",
        "event E ( $ v ) ;",
        "error E ( $ v ) ;",
        "type T is $ ;",
        "using L for $ ;",
        "using L for $ global ;",
        "pragma solidity ^0.8.0 ; contract C { function f ( ) public { # } }",
        "import \"a.sol\" ; ; enum En { A , B } contract C { ; enum Em { X } function f ( ) public { # } }",
    ] {
        t.push(f.to_string());
    }
    t
}

/// Instantiate every template with every marker of the matching sort.  Expression
/// markers are inserted raw and parenthesised (the raw form may bind differently,
/// which is fine: the oracle is the reference walk of whatever was parsed).
pub fn instances() -> Vec<(usize, String)> {
    let mut out = Vec::new();
    for (ti, tpl) in templates().iter().enumerate() {
        if tpl.contains('@') {
            for m in EXPR_MARKERS {
                out.push((ti, tpl.replace('@', m)));
                out.push((ti, tpl.replace('@', &format!("( {m} )"))));
            }
        } else if tpl.contains('#') {
            for m in STMT_MARKERS {
                out.push((ti, tpl.replace('#', m)));
            }
        } else if tpl.contains('$') {
            for m in TYPE_MARKERS {
                out.push((ti, tpl.replace('$', m)));
            }
        } else {
            out.push((ti, tpl.clone()));
        }
    }
    out
}
