pub mod layout;
pub mod matrix;
pub mod program;
pub mod findings;
pub mod tree;
