pub mod layout;
pub mod matrix;
pub mod program;
