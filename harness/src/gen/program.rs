//! Tape-driven generator for Solidity source text covering the surface of
//! `solang_parser::pt` (DESIGN 3.1).  Only syntactic validity matters.  Tokens
//! are emitted separated by single spaces; `gen::layout` re-lays them out.
//!
//! Naming discipline (preconditions of C06/C08/C19): state variables `s<N>` with
//! a file-wide counter, parameters `p<N>`, locals `l<N>`, functions `f<N>` / `_f<N>`,
//! contracts `C<N>`; generic free identifiers `a b c x y z i j k n arr brr owner`.
//! A state variable is only ever mentioned inside its own contract.

use crate::tape::Tape;

#[derive(Clone, Debug)]
pub struct GenCfg {
    pub max_depth: u32,
    pub max_items: usize,
    pub max_members: usize,
    pub max_stmts: usize,
    /// probability (/256) that an expression slot is filled from the planted list
    pub plant: u32,
    /// allow forms listed as "undecided" in DESIGN section 8
    pub undecided: bool,
    /// 0 = always exactly one `pragma solidity X.Y.Z` first; 1 = anything (none, several, odd ones)
    pub pragma_mode: u8,
    /// each top-level head / member head / statement starts a new line (declaration heads on one line)
    pub newline_items: bool,
    /// 0 = general; 1 = declaration-heavy (C06); 2 = mutability-heavy (C08); 3 = selfdestruct-heavy (C07)
    pub focus: u8,
    /// expressions may mention state variables of *other* contracts of the file (inherited members are
    /// written like that); off wherever C19's precondition (items do not share names) must hold
    pub cross_contract_names: bool,
    /// contracts may name an earlier contract of the same file as their base (`contract C2 is C1`)
    pub inherit_earlier: bool,
}

impl Default for GenCfg {
    fn default() -> Self {
        GenCfg {
            max_depth: 6,
            max_items: 5,
            max_members: 7,
            max_stmts: 5,
            plant: 90,
            undecided: false,
            pragma_mode: 0,
            newline_items: true,
            focus: 0,
            cross_contract_names: false,
            inherit_earlier: false,
        }
    }
}

pub const GENERIC: &[&str] = &["a", "b", "c", "x", "y", "z", "i", "j", "k", "n", "arr", "brr", "owner", "token", "\u{e9}t\u{e9}", "\u{540d}\u{524d}"];

const ELEM_TYPES: &[&str] = &[
    "uint256", "uint", "address", "bool", "uint8", "bytes32", "int256", "uint128", "int", "uint16",
    "uint32", "uint64", "uint96", "uint160", "uint248", "int8", "int64", "int128", "bytes1",
    "bytes4", "bytes16", "bytes20", "bytes31", "address payable", "string", "bytes", "byte",
    "uint24", "uint40", "uint72", "uint200", "int24", "int200", "bytes2", "bytes8", "bytes30", "uint88", "uint168", "int88", "bytes11", "bytes21", "uint56", "uint104",
];

const UNITS: &[&str] = &["wei", "gwei", "ether", "seconds", "minutes", "hours", "days", "weeks"];

/// Method calls whose receiver is a call, a subscript, a parenthesised or a `new` expression.
const RECEIVER_CALLS: &[&str] = &[
    "IERC20 ( token ) . decimals ( )", "arr [ 0 ] . fee ( )", "f ( ) . g ( ) . h ( )", "( a ) . f ( )", "new C9 ( ) . f ( )", "a . b [ 0 ] . c ( )",
    "abi . decode ( a , ( uint256 ) )", "f ( a ) [ 1 ] . g { value : 1 } ( )", "payable ( a ) . send ( 1 )", "type ( uint256 ) . max . add ( 1 )",
];

const ASSEMBLY: &[&str] = &[
    "assembly { }",
    "assembly { let r := add ( 1 , 2 ) sstore ( 0 , r ) }",
    "assembly { let h := keccak256 ( 0 , 32 ) if iszero ( h ) { revert ( 0 , 0 ) } }",
    "assembly { for { let q := 0 } lt ( q , 10 ) { q := add ( q , 1 ) } { sstore ( q , mul ( q , 2 ) ) } }",
    "assembly \"evmasm\" { let t := div ( mul ( 4 , 2 ) , 2 ) switch t case 0 { t := 1 } default { t := selfbalance ( ) } }",
    "assembly { function g ( u ) -> v { v := mul ( u , 1024 ) } let w := g ( 3 ) selfdestruct ( caller ( ) ) }",
    "assembly ( \"memory-safe\" ) { let m := mload ( 0x40 ) mstore ( m , eq ( m , 0 ) ) }",
];

/// Planted snippets: (text, precedence level of the snippet, undecided?)
const PLANTS: &[(&str, u8, bool)] = &[
    // address_balance
    ("address ( this ) . balance", 0, false),
    ("address ( a ) . balance", 0, false),
    ("a . balance", 0, false),
    ("f ( a ) . balance", 0, false),
    ("address ( a ) . code", 0, false),
    ("payable ( a ) . balance", 0, true),
    // address_zero
    ("a == address ( 0 )", 11, false),
    ("address ( 0 ) != a", 11, false),
    ("address ( 0 ) == address ( 0 )", 11, false),
    ("address ( 0 ) != address ( 0 )", 11, false),
    ("true == false", 11, false),
    ("a == address ( 1 )", 11, false),
    ("a != address ( b )", 11, false),
    ("a < address ( 0 )", 10, false),
    ("a == ( address ( 0 ) )", 11, true),
    ("a == address ( 0x0 )", 11, true),
    ("a == payable ( 0 )", 11, true),
    // bool_equals_bool
    ("a == true", 11, false),
    ("false != a", 11, false),
    ("b == false", 11, false),
    ("a = true", 14, false),
    ("f ( true )", 0, false),
    ("a && true", 12, false),
    ("a == ( true )", 11, true),
    // assign_update_array_value
    ("arr [ 0 ] = arr [ 0 ] + a", 14, false),
    ("arr [ 3 ] = arr [ 3 ] >> 1", 14, false),
    ("arr [ 1 ] = arr [ 1 ] * b", 14, false),
    ("arr [ 0 ] = 5", 14, false),
    ("arr [ 0 ] = brr [ 0 ] + 1", 14, false),
    ("arr [ 0 ] = arr [ 1 ] + 1", 14, false),
    ("arr [ 0 ] += 1", 14, false),
    ("arr [ 0 ] = - arr [ 0 ]", 14, false),
    ("arr [ 0 ] = arr [ 0 ] ** 2", 14, false),
    ("arr [ 0 ] = 1 + arr [ 0 ]", 14, true),
    // literal subscripts that do not fit 64 bits: equal ones are a self-update, different ones are not
    ("arr [ 18446744073709551616 ] = arr [ 18446744073709551616 ] + a", 14, false),
    ("arr [ 18446744073709551616 ] = arr [ 18446744073709551617 ] + a", 14, false),
    ("arr [ 36893488147419103232 ] = arr [ 18446744073709551616 ] * 2", 14, false),
    ("arr [ 340282366920938463463374607431768211456 ] = arr [ 340282366920938463463374607431768211457 ] - 1", 14, false),
    ("arr [ i ] = arr [ i ] + 1", 14, true),
    ("arr [ 0 ] = m [ 1 ] [ 2 ] + arr [ 0 ]", 14, true),
    ("arr [ 2 ] = f ( a ) [ 0 ] * arr [ 2 ]", 14, true),
    // increment / decrement
    ("i ++", 0, false),
    ("++ i", 2, false),
    ("j --", 0, false),
    ("-- j", 2, false),
    // multiple_require
    ("require ( a && b , \"both\" )", 0, false),
    ("require ( a && b )", 0, false),
    ("require ( a , \"one\" )", 0, false),
    ("assert ( a && b )", 0, false),
    ("x . require ( a && b )", 0, false),
    ("require ( ( a && b ) )", 0, true),
    ("require ( ! ( a && b ) )", 0, true),
    // optimal_comparison
    ("a >= b", 10, false),
    ("a <= b", 10, false),
    ("a > b", 10, false),
    ("a < b", 10, false),
    ("a >>= b", 14, false),
    ("a <<= 1", 14, false),
    // shift_math
    ("a * 2", 4, false),
    ("1024 / a", 4, false),
    ("a / 4", 4, false),
    ("a * 1_024", 4, false),
    ("a * 1606938044258990275541962092341162602522202993782792835301376", 4, false),
    ("a * 4294967296", 4, false),
    ("a * 3", 4, false),
    ("a / 10", 4, false),
    ("a * 0", 4, false),
    ("a * 1e18", 4, false),
    ("a * 2e3", 4, false),
    ("a * 6", 4, false),
    ("a * 12345678901234567890", 4, false),
    ("a + 2", 5, false),
    ("a % 4", 4, false),
    ("a ** 2", 3, false),
    ("a << 2", 6, false),
    ("a * 1", 4, true),
    ("a * 2e0", 4, true),
    ("a * 0x10", 4, true),
    ("a * ( 2 )", 4, true),
    ("a * 2 ether", 4, true),
    ("a * 20e-1", 4, true),
    // keccak
    ("keccak256 ( a )", 0, false),
    ("keccak256 ( abi . encodePacked ( a , b ) )", 0, false),
    ("sha256 ( a )", 0, false),
    ("a . keccak256 ( b )", 0, false),
    // solidity math
    ("a + b", 5, false),
    ("a - b", 5, false),
    ("a / b", 4, false),
    ("a % b", 4, false),
    ("- a", 2, false),
    ("a += b", 14, false),
    // erc20
    ("token . transfer ( a , b )", 0, false),
    ("token . transferFrom ( a , b , c )", 0, false),
    ("token . approve ( a , b )", 0, false),
    ("token . safeTransfer ( a , b )", 0, false),
    ("token . transferOwnership ( a )", 0, false),
    ("token . Transfer", 0, false),
    // divide before multiply
    ("a / b * c", 4, false),
    ("( a / b ) * c", 4, false),
    ("a / b * c * x", 4, false),
    ("a / b * c % n * x", 4, false),
    ("a / b * c + n * x", 5, false),
    ("a * b % n / c * x", 4, false),
    ("( a / b * c ) % n * x", 4, false),
    ("a * b / c", 4, false),
    ("a * ( b / c )", 4, false),
    ("x /= a * b", 14, false),
    ("x /= a * b + c", 14, false),
    ("x /= c + a * b", 14, true),
    ("x /= a / b", 14, false),
    ("( a / b + c ) * x", 4, true),
    ("f ( a / b ) * c", 4, true),
    // selfdestruct and msg.sender
    ("selfdestruct ( payable ( msg . sender ) )", 0, false),
    ("selfdestruct ( a )", 0, false),
    ("suicide ( owner )", 0, false),
    ("selfdestruct ( msg . sender )", 0, false),
    ("require ( msg . sender == owner )", 0, false),
    ("check ( msg . sender )", 0, false),
    ("payable ( msg . sender )", 0, false),
    ("msg . sender", 0, false),
    // safemath / require strings
    ("a . add ( b )", 0, false),
    ("a . sub ( b )", 0, false),
    ("a . mul ( b )", 0, false),
    ("a . div ( b )", 0, false),
    ("a . mod ( b )", 0, false),
    ("require ( a , \"short message\" )", 0, false),
    ("require ( a , \"a message that is longer than thirty-two bytes in total\" )", 0, false),
    ("require ( a > b , \"exactly-thirty-two-bytes-long-msg\" )", 0, false),
    ("require ( a , \"thirty-one-bytes-long-message-x\" )", 0, false),
    ("require ( a , \"ten-bytes!\" \"ten-bytes!\" )", 0, true),
    ("require ( a , \"sixteen-byte-msg\" \"sixteen-byte-msg\" )", 0, true),
    ("require ( a , \"a\" 'b' \"c\" )", 0, true),
    ("require ( a , unicode\"twelve bytes\" \"twelve bytes\" )", 0, true),
    // .length
    ("arr . length", 0, false),
    ("i < arr . length", 10, false),
    ("i < arr . length && j < brr . length", 12, false),
    ("arr . length > brr . length", 10, false),
    ("arr . len", 0, false),
];

pub struct Gen<'t, 'd> {
    pub t: &'t mut Tape<'d>,
    pub cfg: GenCfg,
    out: String,
    n_state: usize,
    n_fn: usize,
    n_local: usize,
    n_contract: usize,
    state_vars: Vec<String>,
    all_state_vars: Vec<String>,
    params: Vec<String>,
    locals: Vec<String>,
    pub budget: i64,
}

/// Generate a whole source file.
pub fn gen_program(t: &mut Tape, cfg: &GenCfg) -> String {
    let mut g = Gen {
        t,
        cfg: cfg.clone(),
        out: String::new(),
        n_state: 0,
        n_fn: 0,
        n_local: 0,
        n_contract: 0,
        state_vars: vec![],
        all_state_vars: vec![],
        params: vec![],
        locals: vec![],
        budget: 4000,
    };
    g.source_unit();
    g.out
}

impl<'t, 'd> Gen<'t, 'd> {
    fn w(&mut self, s: &str) {
        if !self.out.is_empty() && !self.out.ends_with('\n') && !self.out.ends_with(' ') {
            self.out.push(' ');
        }
        self.out.push_str(s);
        self.budget -= 1;
    }
    fn wp(&mut self, xs: &[&str]) {
        let s = *self.t.pick(xs);
        self.w(s);
    }
    fn nl(&mut self) {
        if self.cfg.newline_items && !self.out.is_empty() && !self.out.ends_with('\n') {
            self.out.push('\n');
        }
    }

    // ------------------------------------------------------------------ source unit
    fn source_unit(&mut self) {
        match self.cfg.pragma_mode {
            0 => {
                let v = self.version();
                let op = *self.t.pick(&["", "^", ">=", "=", "~", ">"]);
                if self.t.chance(24) {
                    // compound ranges (outside C09's single-version domain; floating_pragma must still see a caret range)
                    let form = *self.t.pick(&[">=0.8.0 ^0.8.1", "0.8.1 || ^0.7.0", "^0.8", ">=0.6.0 <0.9.0", "^ 0.8.4", ">0.5.0 ^0.5.7 <0.6.0"]);
                    self.w(&format!("pragma solidity {form} ;"));
                } else if self.t.chance(30) {
                    // comments inside the directive: carets and versions named there do not count
                    match self.t.below(5) {
                        0 => self.w(&format!("pragma solidity /* ^0.7.0 */ {op}{v} ;")),
                        1 => self.w(&format!("pragma solidity {op}{v} /* until 0.9.0 */ ;")),
                        2 => self.w(&format!("pragma solidity {op}{v} /* was ^0.7.6 */ ;")),
                        3 if !op.is_empty() => self.w(&format!("pragma solidity {op} /* min */ {v} ;")),
                        _ => self.w(&format!("pragma solidity {op}{v} // was ^0.6.12\n ;")),
                    }
                } else {
                    self.w(&format!("pragma solidity {op}{v} ;"));
                }
                self.nl();
            }
            _ => {
                let n = self.t.below(4);
                for _ in 0..n {
                    self.any_pragma();
                }
            }
        }
        let n = self.t.range(0, self.cfg.max_items);
        for _ in 0..n {
            if self.budget <= 0 {
                break;
            }
            self.top_item();
        }
        if self.cfg.pragma_mode != 0 && self.t.chance(30) {
            self.any_pragma();
        }
    }

    fn version(&mut self) -> String {
        let minor = *self.t.pick(&[8usize, 7, 6, 5, 4, 9, 10, 0]);
        let patch = *self.t.pick(&[0usize, 4, 3, 17, 10, 26, 1, 12]);
        let major = if self.t.chance(12) { 1 } else { 0 };
        format!("{major}.{minor}.{patch}")
    }

    fn any_pragma(&mut self) {
        match self.t.below(9) {
            0 => {
                let v = self.version();
                self.w(&format!("pragma solidity {v} ;"))
            }
            7 => {
                let v = self.version();
                self.w(&format!("pragma solidity /* ^ */ {v} /* ^0.4.0 */ ;"))
            }
            8 => self.w("pragma abicoder /* ^0.8.0 */ v2 ;"),
            1 => {
                let v = self.version();
                self.w(&format!("pragma solidity ^{v} ;"))
            }
            2 => self.w("pragma abicoder v2 ;"),
            3 => self.w("pragma experimental ABIEncoderV2 ;"),
            4 => self.w("pragma solidity >=0.5.0 <0.9.0 ;"),
            5 => self.w("pragma solidity 0.8 ;"),
            _ => self.w("pragma experimental SMTChecker ;"),
        }
        self.nl();
    }

    fn top_item(&mut self) {
        self.nl();
        if self.cfg.focus != 0 {
            match self.t.below(10) {
                0..=6 => self.contract(),
                7 => self.free_function(),
                8 => self.struct_def(),
                _ => self.using(),
            }
            self.nl();
            return;
        }
        match self.t.below(16) {
            0 | 1 | 2 | 3 | 4 => self.contract(),
            5 => self.free_function(),
            6 => self.struct_def(),
            7 => self.enum_def(),
            8 => self.event_def(),
            9 => self.error_def(),
            10 => {
                // file-level constant
                let ty = self.elem_type();
                self.w(&ty);
                self.w("constant");
                let n = self.fresh_generic_const();
                self.w(&n);
                self.w("=");
                self.expr(1, 14);
                self.w(";");
            }
            11 => self.type_def(),
            12 => self.using(),
            13 => self.import(),
            14 => self.w(";"),
            _ => self.contract(),
        }
        self.nl();
    }

    fn fresh_generic_const(&mut self) -> String {
        self.n_local += 1;
        format!("K{}", self.n_local)
    }

    fn import(&mut self) {
        match self.t.below(4) {
            0 => self.w("import \"./a.sol\" ;"),
            1 => self.w("import \"./a.sol\" as A ;"),
            2 => self.w("import * as B from \"b.sol\" ;"),
            _ => self.w("import { X , Y as Z } from 'c.sol' ;"),
        }
    }

    fn using(&mut self) {
        match self.t.below(6) {
            0 => self.w("using SafeMath for uint256 ;"),
            1 => self.w("using SafeMath for * ;"),
            2 => self.w("using Lib . SafeMath for uint ;"),
            3 => self.w("using Address for address ;"),
            4 => self.w("using { add , sub } for uint256 global ;"),
            _ => {
                self.w("using L for");
                self.ty(1);
                self.w(";");
            }
        }
    }

    fn type_def(&mut self) {
        self.n_local += 1;
        let n = format!("T{}", self.n_local);
        self.w("type");
        self.w(&n);
        self.w("is");
        let t = self.elem_type();
        self.w(&t);
        self.w(";");
    }

    fn struct_def(&mut self) {
        if self.t.chance(50) {
            // two structs whose member widths read the same when written one after the other
            // (16,8 / 168; 8,8 / 88; 24,8 / 248): anything keyed on such a rendering confuses them
            let widths = [8u32, 16, 32, 64, 96, 128, 160, 248, 256];
            let (a, b, m) = *self.t.pick(&[(16u32, 8u32, 168u32), (8, 8, 88), (24, 8, 248)]);
            let pre: Vec<u32> = (0..self.t.below(3)).map(|_| *self.t.pick(&widths)).collect();
            let post: Vec<u32> = (0..self.t.below(3)).map(|_| *self.t.pick(&widths)).collect();
            for merged in [false, true] {
                self.n_local += 1;
                self.w(&format!("struct S{} {{", self.n_local));
                let mut k = 0;
                let mut field = |g: &mut Self, w: u32| {
                    g.w(&format!("uint{w} m{k} ;"));
                    k += 1;
                };
                for w in &pre {
                    field(self, *w);
                }
                if merged {
                    field(self, m);
                } else {
                    field(self, a);
                    field(self, b);
                }
                for w in &post {
                    field(self, *w);
                }
                self.w("}");
                self.nl();
            }
            return;
        }
        self.n_local += 1;
        self.w(&format!("struct S{} {{", self.n_local));
        let n = self.t.below(6);
        for k in 0..n {
            self.ty(1);
            self.w(&format!("m{k} ;"));
        }
        self.w("}");
    }

    fn enum_def(&mut self) {
        self.n_local += 1;
        let body = *self.t.pick(&["{ }", "{ A }", "{ A , B , C }"]);
        self.w(&format!("enum E{} {}", self.n_local, body));
    }

    fn event_def(&mut self) {
        self.n_local += 1;
        self.w(&format!("event Ev{} (", self.n_local));
        let n = self.t.below(4);
        for k in 0..n {
            if k > 0 {
                self.w(",");
            }
            self.ty(1);
            if self.t.chance(80) {
                self.w("indexed");
            }
            if self.t.chance(160) {
                self.w(&format!("e{k}"));
            }
        }
        self.w(")");
        if self.t.chance(40) {
            self.w("anonymous");
        }
        self.w(";");
    }

    fn error_def(&mut self) {
        self.n_local += 1;
        self.w(&format!("error Er{} (", self.n_local));
        let n = self.t.below(3);
        for k in 0..n {
            if k > 0 {
                self.w(",");
            }
            self.ty(1);
            if self.t.chance(160) {
                self.w(&format!("e{k}"));
            }
        }
        self.w(") ;");
    }

    // ------------------------------------------------------------------ contracts
    fn contract(&mut self) {
        self.n_contract += 1;
        let kind = *self.t.pick(&["contract", "contract", "contract", "library", "interface", "abstract contract"]);
        self.w(kind);
        self.w(&format!("C{}", self.n_contract));
        if self.t.chance(if self.cfg.inherit_earlier { 110 } else { 50 }) {
            self.w("is");
            let n = self.t.range(1, 2);
            for k in 0..n {
                if k > 0 {
                    self.w(",");
                }
                if (self.cfg.cross_contract_names || self.cfg.inherit_earlier) && self.n_contract > 1 && self.t.chance(128) {
                    let b = format!("C{}", 1 + self.t.below(self.n_contract - 1));
                    self.w(&b);
                } else {
                    self.wp(&["Base", "Ownable", "A . B"]);
                }
                if self.t.chance(100) {
                    self.w("(");
                    self.args(1);
                    self.w(")");
                }
            }
        }
        self.w("{");
        self.nl();
        self.state_vars.clear();
        let n = self.t.range(0, self.cfg.max_members);
        let interface = kind == "interface";
        for _ in 0..n {
            if self.budget <= 0 {
                break;
            }
            self.member(interface);
            self.nl();
        }
        self.w("}");
        self.state_vars.clear();
    }

    fn member(&mut self, interface: bool) {
        if self.cfg.focus == 1 {
            match self.t.below(16) {
                0..=6 => self.function(interface),
                7..=10 => self.state_var(),
                11 | 12 => self.constructor(),
                13 => self.modifier(),
                14 => self.fallback(),
                _ => self.event_def(),
            }
            return;
        }
        if self.cfg.focus == 3 {
            match self.t.below(16) {
                0..=8 => self.selfdestruct_function(),
                9 | 10 => self.function(interface),
                11 => self.state_var(),
                12 => self.constructor(),
                13 => self.modifier(),
                _ => self.fallback(),
            }
            return;
        }
        if self.cfg.focus == 2 {
            match self.t.below(16) {
                0..=6 => self.state_var(),
                7..=11 => self.function(interface),
                12 | 13 => self.constructor(),
                14 => self.modifier(),
                _ => self.fallback(),
            }
            return;
        }
        match self.t.below(20) {
            0 | 1 | 2 | 3 | 4 => self.function(interface),
            5 | 6 | 7 | 8 => self.state_var(),
            9 => self.constructor(),
            10 => self.modifier(),
            11 => self.fallback(),
            12 => self.struct_def(),
            13 => self.event_def(),
            14 => self.error_def(),
            15 => self.enum_def(),
            16 => self.using(),
            17 => self.type_def(),
            18 => self.w(";"),
            _ => self.function(interface),
        }
    }

    fn state_var(&mut self) {
        // type
        let fnty = self.t.chance(10);
        if fnty {
            // function-typed state variable: no attributes allowed by the grammar
            self.w("function ( uint ) external returns ( bool )");
            self.n_state += 1;
            let n = format!("s{}", self.n_state);
            self.w(&n);
            self.w(";");
            return;
        }
        let roll = if self.cfg.focus == 2 { 2 + self.t.below(16) } else { self.t.below(10) };
        match roll {
            0 => {
                self.w("mapping (");
                self.ty(1);
                self.w("=>");
                self.ty(1);
                self.w(")");
            }
            1 => {
                let t = self.elem_type();
                self.w(&t);
                self.w("[ ]");
            }
            2 => self.wp(&["IERC20", "S1", "Lib . T"]),
            _ => {
                let t = self.elem_type();
                self.w(&t);
            }
        }
        // attributes
        let mut constant = false;
        let nattr = self.t.below(3);
        let mut seen_vis = false;
        for _ in 0..nattr {
            match self.t.below(6) {
                0 | 1 | 2 if !seen_vis => {
                    seen_vis = true;
                    self.wp(&["public", "private", "internal"]);
                }
                3 if !constant => {
                    constant = true;
                    self.w("constant");
                }
                4 if !constant => {
                    constant = true;
                    self.w("immutable");
                }
                5 => self.wp(&["override", "override ( A , B . C )"]),
                _ => {}
            }
        }
        self.n_state += 1;
        let underscore = self.t.chance(90);
        // mostly lower case; sometimes UPPER_CASE (the naming convention for constants and immutables) or mixed
        let stem = match self.t.below(8) {
            0 => format!("S{}", self.n_state),
            1 => format!("FEE_{}", self.n_state),
            2 => format!("sV{}", self.n_state),
            _ => format!("s{}", self.n_state),
        };
        let name = if underscore { format!("_{stem}") } else { stem };
        self.w(&name);
        if constant || self.t.chance(90) {
            self.w("=");
            if self.cfg.focus == 2 && !self.state_vars.is_empty() && self.t.chance(70) {
                // an initialiser that writes another state variable
                let other = self.state_vars[self.t.below(self.state_vars.len())].clone();
                self.w("(");
                self.w(&other);
                self.wp(&["=", "=", "+=", "="]);
                self.expr(2, 14);
                self.w(")");
            } else {
                self.expr(1, 14);
            }
        }
        self.w(";");
        self.all_state_vars.push(name.clone());
        self.state_vars.push(name);
    }

    fn param_list(&mut self, named: bool) {
        self.w("(");
        let n = self.t.below(4);
        for k in 0..n {
            if k > 0 {
                self.w(",");
            }
            if n >= 2 && self.t.chance(12) {
                // a hole: the grammar accepts empty slots in lists of two or more
                continue;
            }
            self.ty(1);
            if self.t.chance(110) {
                self.wp(&["memory", "calldata", "storage", "memory"]);
            }
            if named && !self.t.chance(30) {
                self.n_local += 1;
                let p = format!("p{}", self.n_local);
                self.w(&p);
                self.params.push(p);
            }
        }
        self.w(")");
    }

    fn fn_attributes(&mut self, allow_vis: bool) {
        let n = self.t.below(5);
        let mut vis = false;
        let mut mutab = false;
        for _ in 0..n {
            match self.t.below(9) {
                0 | 1 | 2 if allow_vis && !vis => {
                    vis = true;
                    self.wp(&["public", "external", "internal", "private"]);
                }
                3 if !mutab => {
                    mutab = true;
                    self.wp(&["view", "pure", "payable"]);
                }
                4 => self.w("virtual"),
                5 => self.wp(&["override", "override ( A , B . C )"]),
                6 | 7 => {
                    self.wp(&["onlyOwner", "nonReentrant", "auth", "only", "Only", "mod . only", "lock", "Base", "Readonly . whenLive", "onlyLib . guard", "a . b . conly . c"]);
                    if self.t.chance(140) {
                        self.w("(");
                        self.args(1);
                        self.w(")");
                    }
                }
                _ => {}
            }
        }
    }

    fn body_or_semicolon(&mut self, force_body: bool) {
        if force_body || !self.t.chance(40) {
            self.block(1);
        } else {
            self.w(";");
        }
    }

    fn function(&mut self, interface: bool) {
        self.params.clear();
        self.locals.clear();
        self.n_fn += 1;
        let name = if self.t.chance(60) {
            // the same function name may well occur in several contracts (and as an overload)
            self.t.pick(&["kill", "shutdown", "_sweep", "update", "_update", "withdraw", "\u{e9}mettre", "_\u{e9}mettre", "C1", "C2", "C3", "Base", "Ownable"]).to_string()
        } else if self.t.chance(90) {
            format!("_f{}", self.n_fn)
        } else {
            format!("f{}", self.n_fn)
        };
        self.w("function");
        self.w(&name);
        self.param_list(true);
        self.fn_attributes(true);
        if self.t.chance(80) {
            self.w("returns");
            self.w("(");
            let n = self.t.range(1, 2);
            for k in 0..n {
                if k > 0 {
                    self.w(",");
                }
                self.ty(1);
                if self.t.chance(60) {
                    self.w("memory");
                }
                if self.t.chance(80) {
                    self.n_local += 1;
                    let l = format!("l{}", self.n_local);
                    self.w(&l);
                    self.locals.push(l);
                }
            }
            self.w(")");
        }
        if interface && !self.t.chance(20) {
            self.w(";");
        } else {
            self.body_or_semicolon(false);
        }
        self.params.clear();
        self.locals.clear();
    }

    /// a function whose body contains a selfdestruct/suicide call at some depth,
    /// with a tape-chosen visibility, modifier and msg.sender usage class
    fn selfdestruct_function(&mut self) {
        self.params.clear();
        self.locals.clear();
        self.n_fn += 1;
        let name = self.t.pick(&["kill", "shutdown", "destroy", "close", "_sweep"]).to_string();
        if self.t.chance(30) {
            self.w("fallback ( )");
        } else {
            self.w("function");
            self.w(&name);
            self.w("( )");
        }
        self.wp(&["public", "external", "external", "public", "internal", "private", ""]);
        if self.t.chance(70) {
            self.wp(&["onlyOwner", "only", "auth", "Only", "nonReentrant", "mod . only", "whenNotPaused ( a )", "Readonly . whenLive", "onlyLib . guard ( a )", "Guard . ONLY"]);
        }
        self.w("{");
        self.nl();
        if self.t.chance(80) {
            self.stmt(3);
            self.nl();
        }
        match self.t.below(12) {
            0 => self.w("require ( msg . sender == owner ) ;"),
            1 => self.w("check ( msg . sender ) ;"),
            2 => self.w("if ( msg . sender != owner ) revert ( ) ;"),
            3 => self.w("address payable l0 = payable ( msg . sender ) ;"),
            4 => self.w("require ( owner == msg . sender , \"no\" ) ;"),
            5 => self.w("emit Killed ( address ( msg . sender ) ) ;"),
            6 => self.w("require ( msg . sender != address ( 0 ) , \"zero\" ) ;"),
            7 => self.w("uint160 who = uint160 ( msg . sender ) ;"),
            8 => self.w("require ( session ( ) . sender == owner ) ;"),
            9 => self.w("require ( meta . origin . sender != a , \"x\" ) ;"),
            _ => {}
        }
        self.nl();
        let depth = self.t.below(4);
        let mut closers: Vec<&str> = Vec::new();
        for _ in 0..depth {
            match self.t.below(6) {
                0 => {
                    self.w("if ( a > b ) {");
                    closers.push("}");
                }
                1 => {
                    self.w("for ( uint256 i = 0 ; i < 3 ; ++ i ) {");
                    closers.push("}");
                }
                2 => {
                    self.w("unchecked {");
                    closers.push("}");
                }
                3 => {
                    self.w("try this . ext ( ) { } catch {");
                    closers.push("}");
                }
                4 => {
                    self.w("if ( a ) { } else {");
                    closers.push("}");
                }
                _ => {
                    self.w("while ( b ) {");
                    closers.push("}");
                }
            }
            self.nl();
        }
        self.wp(&["selfdestruct", "selfdestruct", "suicide"]);
        self.w("(");
        self.wp(&["payable ( msg . sender )", "owner", "msg . sender", "payable ( owner )", "a", "payable ( address ( msg . sender ) )", "address ( uint160 ( msg . sender ) )", "f ( msg . sender )"]);
        self.w(") ;");
        self.nl();
        for c in closers.iter().rev() {
            self.w(c);
            self.nl();
        }
        if self.t.chance(60) {
            self.stmt(3);
            self.nl();
        }
        self.w("}");
    }

    fn free_function(&mut self) {
        self.params.clear();
        self.locals.clear();
        self.n_fn += 1;
        self.w("function");
        if self.t.chance(30) {
            // a free function that carries the name of a built-in the detectors key on
            self.wp(&["selfdestruct", "suicide", "keccak256", "add", "transfer", "approve"]);
        } else {
            self.w(&format!("g{}", self.n_fn));
        }
        self.param_list(true);
        if self.t.chance(60) {
            self.wp(&["pure", "view"]);
        }
        if self.t.chance(60) {
            self.w("returns ( uint256 )");
        }
        self.block(1);
        self.params.clear();
        self.locals.clear();
    }

    fn constructor(&mut self) {
        self.params.clear();
        self.locals.clear();
        self.w("constructor");
        self.param_list(true);
        self.fn_attributes(true);
        if self.cfg.focus == 2 {
            self.w("{");
            let vars = self.state_vars.clone();
            for v in vars {
                let reps = if self.t.chance(130) { if self.t.chance(60) { 2 } else { 1 } } else { 0 };
                for _ in 0..reps {
                    self.nl();
                    self.w(&v);
                    self.wp(&["=", "=", "=", "=", "+=", "|="]);
                    match self.t.below(8) {
                        0 => self.w("\"text\""),
                        1 => self.w("abi . encode ( a )"),
                        2 => self.w("bytes ( \"x\" )"),
                        3 => {
                            let p = self.name();
                            self.w(&p);
                        }
                        4 => {
                            // a call on some object: only `abi.*`, `bytes(..)` and string literals are excluded by the statement
                            let p = self.name();
                            self.w(&p);
                            self.wp(&[". toString ( )", ". toShortString ( )", ". encode ( a )", ". abi ( )", ". bytes ( )", ". decode ( a )"]);
                        }
                        5 => {
                            // a method call whose receiver is not a plain identifier path
                            self.wp(RECEIVER_CALLS);
                        }
                        _ => self.expr(3, 14),
                    }
                    self.w(";");
                }
            }
            let n = self.t.below(3);
            for _ in 0..n {
                self.nl();
                self.stmt(2);
            }
            self.nl();
            self.w("}");
        } else if !self.state_vars.is_empty() && self.t.chance(70) {
            // an ordinary constructor body that starts by initialising a state variable from a call chain
            self.w("{");
            let v = self.state_vars[self.t.below(self.state_vars.len())].clone();
            self.w(&v);
            self.w("=");
            self.wp(RECEIVER_CALLS);
            self.w(";");
            let n = self.t.below(3);
            for _ in 0..n {
                self.nl();
                self.stmt(2);
            }
            self.w("}");
        } else {
            self.block(1);
        }
        self.params.clear();
        self.locals.clear();
    }

    fn modifier(&mut self) {
        self.params.clear();
        self.locals.clear();
        self.n_fn += 1;
        self.w("modifier");
        self.wp(&["onlyOwner", "auth", "lock", "checked"]);
        if self.t.chance(140) {
            self.param_list(true);
        }
        if self.t.chance(30) {
            self.w("virtual");
        }
        if self.t.chance(20) {
            self.w(";");
        } else {
            self.w("{");
            let n = self.t.below(3);
            for _ in 0..n {
                self.stmt(2);
            }
            self.w("_ ;");
            self.w("}");
        }
        self.params.clear();
    }

    fn fallback(&mut self) {
        self.params.clear();
        self.locals.clear();
        if self.t.chance(40) {
            // the pre-0.6 unnamed fallback: a function definition of kind `function` without a name
            self.w("function ( )");
            self.wp(&["external", "external payable", "public", "payable external", ""]);
        } else if self.t.chance(128) {
            self.w("fallback ( ) external");
            if self.t.chance(100) {
                self.w("payable");
            }
        } else {
            self.w("receive ( ) external payable");
        }
        self.block(1);
    }

    // ------------------------------------------------------------------ types
    fn elem_type(&mut self) -> String {
        self.t.pick(ELEM_TYPES).to_string()
    }

    /// a type expression (a Precedence0 expression in this grammar)
    fn ty(&mut self, depth: u32) {
        if depth > 3 || self.budget <= 0 {
            let t = self.elem_type();
            self.w(&t);
            return;
        }
        match self.t.below(16) {
            0..=8 => {
                let t = self.elem_type();
                self.w(&t);
            }
            9 => {
                self.w("mapping (");
                self.ty(depth + 1);
                self.w("=>");
                self.ty(depth + 1);
                self.w(")");
            }
            10 => {
                self.ty(depth + 1);
                self.w("[ ]");
            }
            11 => {
                self.ty(depth + 1);
                self.w("[");
                self.expr(depth + 2, 14);
                self.w("]");
            }
            12 => {
                self.w("function (");
                if self.t.chance(128) {
                    self.ty(depth + 1);
                    if self.t.chance(80) {
                        self.w(",");
                        self.ty(depth + 1);
                    }
                }
                self.w(")");
                self.wp(&["external", "internal", "external view", "internal pure", "external payable", ""]);
                if self.t.chance(100) {
                    self.w("returns (");
                    self.ty(depth + 1);
                    self.w(")");
                }
            }
            13 => self.wp(&["IERC20", "S1", "Lib . T", "E1"]),
            14 => self.w("address payable"),
            _ => {
                if self.cfg.undecided && self.t.chance(90) {
                    // expressions the grammar accepts in a type position although they are no types
                    self.wp(&["( uint256 )", "uint8 [ 1 : 2 ]", "f ( )", "a . b", "arr [ 0 ]", "( uint8 , uint8 )", "uint256 ( 1 )", "( ( bool ) )"]);
                } else {
                    let t = self.elem_type();
                    self.w(&t);
                }
            }
        }
    }

    // ------------------------------------------------------------------ statements
    fn block(&mut self, depth: u32) {
        self.w("{");
        let n = if depth > self.cfg.max_depth { 0 } else { self.t.range(0, self.cfg.max_stmts) };
        let mark = self.locals.len();
        for _ in 0..n {
            if self.budget <= 0 {
                break;
            }
            self.nl();
            self.stmt(depth + 1);
        }
        self.locals.truncate(mark.max(0));
        self.nl();
        self.w("}");
    }

    /// statement usable as the body of if/while/for (never a bare declaration)
    fn body_stmt(&mut self, depth: u32) {
        if self.t.chance(150) || depth > self.cfg.max_depth {
            self.block(depth);
        } else {
            self.simple_expr_stmt(depth);
        }
    }

    fn simple_expr_stmt(&mut self, depth: u32) {
        self.expr_stmt_inner(depth);
        self.w(";");
    }

    fn expr_stmt_inner(&mut self, depth: u32) {
        // expression statements: bias to assignments, calls and inc/dec
        let roll = if self.cfg.focus == 2 { self.t.below(5) } else { self.t.below(8) };
        match roll {
            0 | 1 => {
                self.lvalue(depth);
                self.wp(&["=", "=", "=", "+=", "-=", "*=", "/=", "%=", "|=", "&=", "^=", "<<=", ">>="]);
                self.expr(depth + 1, 14);
            }
            2 => {
                let n = self.name();
                if self.t.chance(128) {
                    self.w(&n);
                    self.wp(&["++", "--"]);
                } else {
                    self.wp(&["++", "--"]);
                    self.w(&n);
                }
            }
            3 => {
                self.call(depth + 1);
            }
            _ => self.expr(depth + 1, 14),
        }
    }

    fn lvalue(&mut self, depth: u32) {
        match self.t.below(10) {
            8 => {
                // tuple and parenthesised targets: plain, with holes, nested, mixed with declarations, indexed components
                let a = self.name();
                let b = self.name();
                let c = self.name();
                self.n_local += 1;
                let fresh = format!("l{}", self.n_local);
                match self.t.below(10) {
                    0 => self.w(&format!("( {a} , {b} )")),
                    1 => self.w(&format!("( , {a} , )")),
                    2 => self.w(&format!("( ( {a} , {b} ) , {c} )")),
                    3 => self.w(&format!("( ( {a} ) , )")),
                    4 => self.w(&format!("( uint256 {fresh} , {a} )")),
                    5 => self.w(&format!("( bool {fresh} , {a} )")),
                    6 => self.w(&format!("( {a} , uint256 {fresh} , {b} )")),
                    7 => self.w(&format!("( ( {a} [ 0 ] , ) , )")),
                    8 => self.w(&format!("( {a} )")),
                    _ => self.w(&format!("( ( ( {a} ) ) , ( , {b} ) )")),
                }
            }
            9 if self.t.chance(128) => {
                // several subscripts, other names only read as keys: `m[keys[i]][id] = ..` writes m, not keys
                // (the keys are parameters of the function where there are any)
                let a = self.name();
                let b = if self.params.is_empty() { self.name() } else { self.params[self.t.below(self.params.len())].clone() };
                let c = if self.params.is_empty() { self.name() } else { self.params[self.t.below(self.params.len())].clone() };
                match self.t.below(4) {
                    0 => self.w(&format!("{a} [ {b} [ i ] ] [ {c} ]")),
                    1 => self.w(&format!("{a} [ {b} ] [ {c} [ 0 ] ]")),
                    2 => self.w(&format!("{a} [ {b} . length ] [ 0 ] [ {c} ]")),
                    _ => self.w(&format!("{a} [ uint256 ( {b} [ 0 ] ) ] . m0 [ {c} ]")),
                }
            }
            0..=4 => {
                let n = self.name();
                self.w(&n);
            }
            5 => {
                let n = self.name();
                self.w(&n);
                self.w("[");
                self.expr(depth + 2, 14);
                self.w("]");
            }
            6 => {
                let n = self.name();
                self.w(&n);
                self.w(". m0");
            }
            _ => self.expr(depth + 1, 13),
        }
    }

    /// an identifier: state variable of the current contract, parameter, local or generic
    fn name(&mut self) -> String {
        if self.cfg.cross_contract_names && !self.all_state_vars.is_empty() && self.t.chance(40) {
            return self.all_state_vars[self.t.below(self.all_state_vars.len())].clone();
        }
        let pools = [self.state_vars.len(), self.params.len(), self.locals.len()];
        match self.t.below(6) {
            0 | 1 if pools[0] > 0 => self.state_vars[self.t.below(pools[0])].clone(),
            2 if pools[1] > 0 => self.params[self.t.below(pools[1])].clone(),
            3 if pools[2] > 0 => self.locals[self.t.below(pools[2])].clone(),
            _ => self.t.pick(GENERIC).to_string(),
        }
    }

    fn stmt(&mut self, depth: u32) {
        if depth > self.cfg.max_depth || self.budget <= 0 {
            self.simple_expr_stmt(depth);
            return;
        }
        match self.t.below(26) {
            0..=5 => self.simple_expr_stmt(depth),
            6 | 7 => self.var_def(depth, true),
            8 => {
                self.w("if (");
                self.expr(depth + 1, 14);
                self.w(")");
                self.body_stmt(depth + 1);
                if self.t.chance(100) {
                    self.w("else");
                    self.body_stmt(depth + 1);
                }
            }
            9 => {
                self.w("while (");
                self.expr(depth + 1, 14);
                self.w(")");
                self.body_stmt(depth + 1);
            }
            10 | 11 => self.for_stmt(depth),
            12 => {
                self.w("do");
                self.body_stmt(depth + 1);
                self.w("while (");
                self.expr(depth + 1, 14);
                self.w(") ;");
            }
            13 => self.block(depth),
            14 | 15 => {
                self.w("unchecked {");
                let n = self.t.range(0, 3);
                for _ in 0..n {
                    self.stmt(depth + 1);
                }
                if self.t.chance(40) {
                    // a nested unchecked block (the parser accepts it) that closes before the outer one does
                    let a = self.name();
                    let b = self.name();
                    let wrapped = self.t.below(3);
                    self.w(["unchecked {", "if ( a ) { unchecked {", "{ unchecked {"][wrapped]);
                    self.w(&format!("-- {a} ;"));
                    self.w(if wrapped == 0 { "}" } else { "} }" });
                    self.w(&format!("++ {b} ; {a} ++ ;"));
                }
                self.w("}");
            }
            16 => self.wp(ASSEMBLY),
            17 => self.try_stmt(depth),
            18 => {
                self.w("emit");
                self.wp(&["Transfer", "Ev1", "A . Ev"]);
                self.w("(");
                self.args(depth + 1);
                self.w(") ;");
            }
            19 => {
                self.w("revert");
                match self.t.below(5) {
                    0 => self.w("( )"),
                    1 => {
                        self.w("(");
                        self.args(depth + 1);
                        self.w(")");
                    }
                    2 => {
                        self.w("Er1 (");
                        self.args(depth + 1);
                        self.w(")");
                    }
                    3 => {
                        self.w("A . Er ( { x :");
                        self.expr(depth + 1, 14);
                        self.w(", y :");
                        self.expr(depth + 1, 14);
                        self.w("} )");
                    }
                    _ => {
                        self.w("( { reason :");
                        self.expr(depth + 1, 14);
                        self.w("} )");
                    }
                }
                self.w(";");
            }
            20 => {
                self.w("return");
                if self.t.chance(180) {
                    self.expr(depth + 1, 14);
                }
                self.w(";");
            }
            21 => self.wp(&["break ;", "continue ;"]),
            22 => {
                // tuple destructuring
                match self.t.below(3) {
                    0 => {
                        self.w("(");
                        let a = self.name();
                        self.w(&a);
                        self.w(",");
                        let b = self.name();
                        self.w(&b);
                        self.w(") =");
                        self.expr(depth + 1, 14);
                        self.w(";");
                    }
                    1 => {
                        self.w("( , ");
                        let b = self.name();
                        self.w(&b);
                        self.w(", ) =");
                        self.expr(depth + 1, 14);
                        self.w(";");
                    }
                    _ => {
                        self.n_local += 2;
                        let (l1, l2) = (format!("l{}", self.n_local - 1), format!("l{}", self.n_local));
                        self.w("(");
                        self.ty(2);
                        self.w(&l1);
                        self.w(",");
                        self.ty(2);
                        self.w("memory");
                        self.w(&l2);
                        self.w(") =");
                        self.expr(depth + 1, 14);
                        self.w(";");
                        self.locals.push(l1);
                        self.locals.push(l2);
                    }
                }
            }
            23 => {
                // statement-level named-argument block `{ a : e }`
                self.w("{ k :");
                self.expr(depth + 1, 14);
                if self.t.chance(80) {
                    self.w(", v :");
                    self.expr(depth + 1, 14);
                }
                self.w("}");
            }
            _ => self.simple_expr_stmt(depth),
        }
    }

    fn var_def(&mut self, depth: u32, semicolon: bool) {
        self.ty(2);
        if self.t.chance(70) {
            self.wp(&["memory", "storage", "calldata"]);
        }
        self.n_local += 1;
        let l = format!("l{}", self.n_local);
        self.w(&l);
        if self.t.chance(190) {
            self.w("=");
            self.expr(depth + 1, 14);
        }
        if semicolon {
            self.w(";");
        }
        self.locals.push(l);
    }

    fn for_stmt(&mut self, depth: u32) {
        self.w("for (");
        if self.t.chance(200) {
            if self.t.chance(170) {
                self.var_def(depth, false);
            } else {
                self.expr_stmt_inner(depth + 1);
            }
        }
        self.w(";");
        if self.t.chance(220) {
            if self.t.chance(100) {
                let i = self.name();
                self.w(&i);
                self.w("<");
                let a = self.name();
                self.w(&a);
                self.w(". length");
            } else {
                self.expr(depth + 1, 14);
            }
        }
        self.w(";");
        if self.t.chance(200) {
            self.expr_stmt_inner(depth + 1);
        }
        self.w(")");
        if self.t.chance(25) {
            self.w(";");
        } else {
            self.body_stmt(depth + 1);
        }
    }

    fn try_stmt(&mut self, depth: u32) {
        self.w("try");
        match self.t.below(3) {
            0 => {
                self.w("new C9 (");
                self.args(depth + 1);
                self.w(")");
            }
            1 => {
                self.w("this . ext (");
                self.args(depth + 1);
                self.w(")");
            }
            _ => {
                self.w("token . call { value :");
                self.expr(depth + 1, 14);
                self.w("} (");
                self.args(depth + 1);
                self.w(")");
            }
        }
        if self.t.chance(140) {
            self.w("returns (");
            self.ty(2);
            self.n_local += 1;
            let l = format!("l{}", self.n_local);
            self.w(&l);
            self.locals.push(l);
            self.w(")");
            self.block(depth + 1);
        }
        let n = self.t.range(1, 3);
        for _ in 0..n {
            self.w("catch");
            match self.t.below(4) {
                0 => {}
                1 => {
                    self.w("(");
                    self.ty(2);
                    self.w("memory");
                    self.n_local += 1;
                    let l = format!("l{}", self.n_local);
                    self.w(&l);
                    self.w(")");
                }
                2 => {
                    self.w("Error ( string memory");
                    self.n_local += 1;
                    let l = format!("l{}", self.n_local);
                    self.w(&l);
                    self.w(")");
                }
                _ => {
                    self.w("Panic (");
                    self.ty(2);
                    self.w(")");
                }
            }
            self.block(depth + 1);
        }
    }

    // ------------------------------------------------------------------ expressions
    fn args(&mut self, depth: u32) {
        let n = self.t.below(4);
        for k in 0..n {
            if k > 0 {
                self.w(",");
            }
            self.expr(depth + 1, 14);
        }
    }

    fn call(&mut self, depth: u32) {
        match self.t.below(6) {
            0 => {
                self.wp(&["f", "check", "require", "assert", "keccak256", "selfdestruct", "g"]);
                self.w("(");
                self.args(depth);
                self.w(")");
            }
            1 => {
                let n = self.name();
                self.w(&n);
                self.w(".");
                self.wp(&["transfer", "add", "call", "push", "approve", "send", "sub", "length", "mul", "toString", "toUint", "asBytes", "encode", "String", "abi"]);
                self.w("(");
                self.args(depth);
                self.w(")");
            }
            2 => {
                let t = self.elem_type();
                self.w(&t);
                self.w("(");
                self.expr(depth + 1, 14);
                self.w(")");
            }
            3 => {
                self.w("f ( { x :");
                self.expr(depth + 1, 14);
                self.w(", y :");
                self.expr(depth + 1, 14);
                self.w("} )");
            }
            4 => {
                self.w("token . call { value :");
                self.expr(depth + 1, 14);
                self.w(", gas : 5000 } (");
                self.args(depth);
                self.w(")");
            }
            _ => {
                self.w("payable (");
                self.expr(depth + 1, 14);
                self.w(")");
            }
        }
    }

    fn number(&mut self) {
        let s = match self.t.below(24) {
            0 => "0",
            1 => "1",
            2 => "2",
            3 => "10",
            4 => "32",
            5 => "1024",
            6 => "255",
            7 => "4294967295",
            8 => "4294967296",
            9 => "18446744073709551616",
            10 => "340282366920938463463374607431768211456",
            11 => "115792089237316195423570985008687907853269984665640564039457584007913129639936",
            12 => "1_000_000",
            13 => "1e18",
            14 => "2e3",
            15 => "5e-3",
            16 => "1_0e1_0",
            17 => "1.5",
            18 => ".5",
            19 => "2.5e3",
            20 => "0x1f",
            21 => "0xdead_beef",
            22 => "0xdAC17F958D2ee523a2206206994597C13D831ec7",
            _ => "3",
        };
        self.w(s);
    }

    fn string(&mut self) {
        let s = match self.t.below(10) {
            0 => "\"\"",
            1 => "\"msg\"",
            2 => "'single'",
            3 => "\"a >= b; selfdestruct(msg.sender); x = x + 1;\"",
            4 => "unicode\"h\u{e9}llo \u{1f600}\"",
            5 => "\"part one\" \"part two\"",
            6 => "hex\"deadbeef\"",
            7 => "hex'00_11' hex\"22\"",
            8 => "\"escaped \\\" quote // not a comment\"",
            _ => "\"a string that is at least thirty-two bytes long, /* really */\"",
        };
        self.w(s);
    }

    /// Emit an expression whose precedence level is at most `level`
    /// (14 = anything ... 0 = primary/postfix); looser forms are parenthesised.
    pub fn expr(&mut self, depth: u32, level: u8) {
        if depth > self.cfg.max_depth || self.budget <= 0 {
            self.atom();
            return;
        }
        // planted snippet?
        if self.t.chance(self.cfg.plant) {
            let idx = self.t.below(PLANTS.len());
            let (text, lv, und) = PLANTS[idx];
            if !und || self.cfg.undecided {
                if lv > level {
                    self.w("(");
                    self.w(text);
                    self.w(")");
                } else {
                    self.w(text);
                }
                return;
            }
        }
        let choice = self.t.below(40);
        // (level of production)
        let lv: u8 = match choice {
            0..=7 => 0,   // atom
            8 | 9 => 14,  // assignment
            10 => 14,     // ternary
            11 => 13,
            12 => 12,
            13 | 14 => 11,
            15 | 16 => 10,
            17 => 9,
            18 => 8,
            19 => 7,
            20 => 6,
            21 | 22 => 5,
            23 | 24 => 4,
            25 => 3,
            26 | 27 => 2,
            _ => 0, // postfix family
        };
        let paren = lv > level;
        if paren {
            self.w("(");
        }
        match choice {
            0..=7 => self.atom(),
            8 | 9 => {
                self.lvalue(depth);
                self.wp(&["=", "=", "+=", "-=", "*=", "/=", "%=", "|=", "&=", "^=", "<<=", ">>="]);
                self.expr(depth + 1, 14);
            }
            10 => {
                self.expr(depth + 1, 13);
                self.w("?");
                self.expr(depth + 1, 14);
                self.w(":");
                self.expr(depth + 1, 14);
            }
            11 => self.binary(depth, 13, 12, &["||"]),
            12 => self.binary(depth, 12, 11, &["&&"]),
            13 | 14 => self.binary(depth, 11, 10, &["==", "!="]),
            15 | 16 => self.binary(depth, 10, 9, &["<", ">", "<=", ">="]),
            17 => self.binary(depth, 9, 8, &["|"]),
            18 => self.binary(depth, 8, 7, &["^"]),
            19 => self.binary(depth, 7, 6, &["&"]),
            20 => self.binary(depth, 6, 5, &["<<", ">>"]),
            21 | 22 => self.binary(depth, 5, 4, &["+", "-"]),
            23 | 24 => self.binary(depth, 4, 3, &["*", "/", "%"]),
            25 => self.binary(depth, 2, 3, &["**"]),
            26 | 27 => {
                let op = *self.t.pick(&["!", "~", "-", "++", "--", "delete", "+", "new"]);
                self.w(op);
                if op == "new" {
                    self.wp(&["C9", "uint256 [ ]", "bytes"]);
                    self.w("(");
                    self.args(depth + 1);
                    self.w(")");
                } else {
                    self.expr(depth + 1, 2);
                }
            }
            28 | 29 => {
                // postfix inc/dec
                self.expr(depth + 1, 0);
                self.wp(&["++", "--"]);
            }
            30 | 31 => self.call(depth + 1),
            32 => {
                self.postfix_base(depth);
                self.w("[");
                if !self.t.chance(20) {
                    self.expr(depth + 1, 14);
                }
                self.w("]");
            }
            33 => {
                self.postfix_base(depth);
                self.w("[");
                if self.t.chance(170) {
                    self.expr(depth + 1, 14);
                }
                self.w(":");
                if self.t.chance(170) {
                    self.expr(depth + 1, 14);
                }
                self.w("]");
            }
            34 | 35 => {
                self.postfix_base(depth);
                self.w(".");
                self.wp(&["length", "balance", "transfer", "sender", "m0", "add", "selector", "address", "approve", "value", "r", "s", "a", "From", "transf", "prove", "transferFrom", "len", "e"]);
            }
            36 => {
                self.w("[");
                let n = self.t.range(1, 3);
                for k in 0..n {
                    if k > 0 {
                        self.w(",");
                    }
                    self.expr(depth + 1, 14);
                }
                self.w("]");
            }
            37 => {
                // tuple / list
                self.w("(");
                let n = self.t.range(2, 3);
                for k in 0..n {
                    if k > 0 {
                        self.w(",");
                    }
                    if !self.t.chance(40) {
                        self.expr(depth + 1, 14);
                    }
                }
                self.w(")");
            }
            38 => {
                self.number_plain();
                self.wp(UNITS);
            }
            _ => {
                self.w("type (");
                self.ty(2);
                self.w(") . max");
            }
        }
        if paren {
            self.w(")");
        }
    }

    fn number_plain(&mut self) {
        self.wp(&["1", "2", "10", "1024", "0", "7"]);
    }

    fn postfix_base(&mut self, depth: u32) {
        if self.t.chance(150) {
            let n = self.name();
            self.w(&n);
        } else {
            // anything postfix-level; literals are wrapped to keep `1 . x` out
            self.w("(");
            self.expr(depth + 1, 14);
            self.w(")");
        }
    }

    fn binary(&mut self, depth: u32, l: u8, r: u8, ops: &[&str]) {
        self.expr(depth + 1, l);
        self.wp(ops);
        self.expr(depth + 1, r);
    }

    fn atom(&mut self) {
        match self.t.below(16) {
            0..=6 => {
                let n = self.name();
                self.w(&n);
            }
            7 | 8 => self.number(),
            9 => self.wp(&["true", "false"]),
            10 => self.string(),
            11 => self.w("this"),
            12 => self.w("msg . sender"),
            13 => {
                let t = self.elem_type();
                self.w(&t);
            }
            14 => self.w("( )"),
            _ => self.number_plain(),
        }
    }
}

pub fn plants() -> &'static [(&'static str, u8, bool)] {
    PLANTS
}
