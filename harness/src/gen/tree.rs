//! Directory trees (DESIGN 3.3).  A spec is a recursive list of entries in
//! *creation order* (on tmpfs the listing order is the reverse of it, so the
//! generator owns the listing order through the creation history).

use crate::gen::program::{self, GenCfg};
use crate::tape::Tape;
use serde_json::{json, Value};
use std::path::{Path, PathBuf};
use std::sync::atomic::{AtomicU64, Ordering};

#[derive(Clone, Debug)]
pub enum Kind {
    /// file content as bytes (eligible files always hold a parser-accepted program)
    File(Vec<u8>),
    Dir(Vec<Entry>),
    /// a symbolic link to a directory that lives outside the tree (materialised only by
    /// `materialize_with_links`; everywhere else it is an ordinary directory)
    Link(Vec<Entry>),
}

#[derive(Clone, Debug)]
pub struct Entry {
    pub name: String,
    pub kind: Kind,
    /// name class, for the evidence
    pub class: &'static str,
}

/// The eligibility predicate, written from the property statement.
pub fn eligible(name: &str) -> bool {
    name.ends_with(".sol") && !name.to_lowercase().ends_with(".t.sol")
}

/// Names the property does not decide: end in ".sol", are not "*.t.sol", but contain ".t.sol" elsewhere
/// in some letter case — under either direction of Unicode case mapping (U+017F 'ſ' upper-cases to 'S'
/// although no letter lower-cases to it, so ".t.ſol" is ".T.SOL" in upper case only).
pub fn undecided_name(name: &str) -> bool {
    eligible(name) && (name.to_lowercase().contains(".t.sol") || name.to_uppercase().contains(".T.SOL"))
}

const ELIGIBLE_NAMES: &[&str] = &[
    "Token.sol", "a.sol", ".sol", "a.b.sol", "\u{540d}\u{524d}.sol", "a b.sol", "-x.sol", "Vault.sol", "t.sol", "at.sol", "x.tsol.sol", "UPPER.sol", "sol.sol", "a.t.x.sol",
    // letters whose upper / lower case forms are other letters or longer strings (long s, dotted capital I, sharp s, Kelvin sign)
    "Vault.t.\u{17f}ol.sol", "\u{130}.sol", "stra\u{df}e.sol", "\u{212a}.t.sol.x.sol",
    // names that differ only in letter case or in the spelling of a number; markup and bidirectional control characters
    "token.sol", "TOKEN.sol", "Vault_v1.sol", "Vault_v01.sol", "Vault_v001.sol", "Vault<T>.sol", "a&b.sol", "x\u{202e}y.sol", "\u{2066}z\u{2069}.sol", "a*b*.sol",
    // names that look like placeholders of formatting or templating code
    "{total}.sol", "{}.sol", "%s.sol", "$1.sol", "~a.sol",
];
const TEST_NAMES: &[&str] = &["a.t.sol", "A.T.sol", "x.T.sol", "Token.t.sol", ".t.sol", "b.t.SOL.t.sol", "\u{130}.T.sol"];
const OTHER_NAMES: &[&str] = &[
    "a.SOL", "a.Sol", "a.sol.txt", "a.solx", "asol", "a.sol~", "README", ".gitignore", "solstat_report.md", "a.t.Sol", "sol", "a.sol.bak", "Makefile",
    "notes.md", "a.sol ", "x.json", "a.\u{17f}ol", "a.t.\u{17f}ol", "A.SO\u{212a}",
    // project files of the usual tool chains (their content is plausible for the name, see `inert_content_for`)
    "foundry.toml", "remappings.txt", "hardhat.config.js", "package.json", ".solhint.json", "Solstat.toml", "solstat.toml",
];
const DIR_NAMES: &[&str] = &["sub", "lib", "x.sol", "x.t.sol", "node_modules", "interfaces", "a", "\u{76ee}\u{5f55}"];

/// Rich programs in which many patterns fire (so the same pattern recurs across files).
pub const POOL: &[&str] = &[
    "pragma solidity ^0.8.4 ;\nusing SafeMath for uint256 ;\ncontract A {\nuint256 total ;\naddress owner ;\nuint8 small ;\nuint256 big ;\nuint8 small2 ;\nuint256 constant LIMIT = 10 ;\nfunction f ( uint256 [ ] memory arr , address token ) public {\nrequire ( arr . length >= 1 && total <= 5 , \"a message that is longer than thirty-two bytes in total\" ) ;\nfor ( uint256 i = 0 ; i < arr . length ; i ++ ) {\ntotal = total + arr [ i ] * 2 ;\n}\nif ( owner == address ( 0 ) ) { owner = msg . sender ; }\nbool ok = token == address ( this ) ;\nif ( ok == true ) { total = total . add ( 1 ) / 4 * 3 ; }\nIERC20 ( token ) . transfer ( owner , address ( this ) . balance ) ;\nbytes32 h = keccak256 ( abi . encode ( total ) ) ;\n}\nfunction kill ( ) external {\nselfdestruct ( payable ( owner ) ) ;\n}\n}\n",
    "pragma solidity 0.7.6 ;\ncontract B {\nusing SafeMath for uint256 ;\nuint256 private count ;\nuint256 public _exposed ;\nstruct S { uint8 a ; uint256 b ; uint8 c ; }\nfunction g ( ) public { }\nconstructor ( ) { count = 1 ; }\nfunction h ( uint256 x ) internal returns ( uint256 ) {\nrequire ( x > 0 , \"a string that is at least thirty-two bytes long\" ) ;\nuint256 [ 2 ] memory arr ;\narr [ 0 ] = arr [ 0 ] + x ;\nreturn x . mul ( 2 ) . div ( count ) ;\n}\nfunction _pub ( ) external { count ++ ; }\n}\n",
    "pragma solidity 0.8.17 ;\ncontract C {\nuint256 x ;\nfunction f ( ) external { x = x / 3 * 2 ; x /= 2 * x ; if ( x >= 3 ) { ++ x ; } }\n}\n",
    "pragma solidity ^0.6.0 ;\nlibrary L {\nfunction add ( uint256 a , uint256 b ) internal pure returns ( uint256 ) { return a + b ; }\n}\n",
    "contract NoPragma { function f ( address t ) public { t . approve ( t , 1 ) ; } }\n",
    "pragma solidity 0.8.4 ;\ninterface I { function f ( ) external ; }\n",
    "pragma solidity 0.7.6 ;\nlibrary SafeMath { function add ( uint256 a , uint256 b ) internal pure returns ( uint256 ) { return a + b ; } }\npragma solidity 0.8.13 ;\ncontract Flat {\nusing SafeMath for uint256 ;\nfunction f ( uint256 a ) public returns ( uint256 ) {\nrequire ( a > 0 , \"a message that is longer than thirty-two bytes in total\" ) ;\nreturn a . add ( 1 ) ;\n}\n}\n",
    // a literal U+FFFD REPLACEMENT CHARACTER in a comment (valid UTF-8, not a decoding error)
    "pragma solidity ^0.8.0 ;\n// legacy header \u{fffd} kept as is\ncontract R { function f ( address t , uint256 a , uint256 b ) public { t . approve ( t , a / b * 3 ) ; } }\n",
    // a U+FEFF inside a revert string whose length is 34 bytes with it and 31 without
    "pragma solidity 0.7.6 ;\ncontract Z { function f ( uint256 a ) public { require ( a > 0 , \"a message of 31 bytes + one BOM\u{feff}\" ) ; } }\n",
    // functions that override the functions of the interface in the pool (`interface I { function f ( ) external ; }`)
    "pragma solidity 0.8.4 ;\ncontract V is I {\nfunction f ( ) public override { }\nfunction g ( uint256 a ) external override { }\nfunction h ( ) external { }\n}\n",
    "pragma solidity 0.8.4 ;\ninterface IV { function g ( uint256 a ) external ; function h ( ) external ; }\n",
    // white space only (an empty source unit), with line feeds
    "\n\n\n \n\t\n\n",
    // classic-Mac line ends: a lone CR ends the line comment and separates tokens, but is not a line feed
    "// SPDX-License-Identifier: MIT\rpragma solidity ^0.8.0 ;\rcontract CR {\rfunction f ( address t , uint256 a , uint256 b , uint256 c ) public { t . transfer ( 1 ) ; a = a / b * c ; }\r}\r",
    // no pragma, but SafeMath and a long revert string (no version => no version-gated finding)
    "library SafeMath { function add ( uint256 a , uint256 b ) internal pure returns ( uint256 ) { return a + b ; } }\ncontract P {\nusing SafeMath for uint256 ;\nfunction f ( uint256 a ) public returns ( uint256 ) {\nrequire ( a > 0 , \"a message that is longer than thirty-two bytes in total\" ) ;\nreturn a . add ( 1 ) ;\n}\n}\n",
    // a version without patch component
    "pragma solidity ^0.8 ;\ncontract Q {\nusing SafeMath for uint256 ;\nfunction f ( uint256 a ) public returns ( uint256 ) {\nrequire ( a > 0 , \"a message that is longer than thirty-two bytes in total\" ) ;\nreturn a . add ( 1 ) ;\n}\n}\n",
    // a file-level `using ... global` directive, and SafeMath-like calls without any using directive
    "pragma solidity 0.8.13 ;\nusing SafeMath for uint256 global ;\ncontract G { function f ( uint256 a ) public returns ( uint256 ) { return a . add ( 1 ) ; } }\n",
    "pragma solidity 0.8.13 ;\ncontract NoUsing { function f ( uint256 a ) public returns ( uint256 ) { return a . add ( 1 ) . mul ( 2 ) ; } }\n",
    "pragma solidity 0.7.1 ;\ncontract NoUsingOld { function f ( uint256 a ) public returns ( uint256 ) { return a . sub ( 1 ) . div ( 2 ) ; } }\n",
    "pragma solidity 0.8.10 ;\ncontract M {\nuint256 public a1 ;\nuint256 public a2 ;\nuint256 public a3 ;\nuint256 constant K1 = 1 ;\nuint256 constant K2 = 2 ;\nfunction g (\nstring memory s ,\nuint256 [ ] memory arr ,\nbytes memory data ,\naddress [ ] memory who\n) external returns ( uint256 ) {\nreturn arr . length + who . length + bytes ( s ) . length + data . length ;\n}\n}\n",
];

pub struct TreeCfg {
    pub max_depth: u32,
    pub max_entries: usize,
    /// percentage-ish weights (of 256) for inert entries
    pub inert: u32,
}

impl Default for TreeCfg {
    fn default() -> Self {
        TreeCfg { max_depth: 3, max_entries: 6, inert: 90 }
    }
}

fn program_text(t: &mut Tape) -> String {
    let p = program_text_inner(t);
    if t.chance(64) {
        // one token per line: constructs that share a line in the usual layout get lines of their own
        if let Some(toks) = crate::gen::layout::tokenize(&p) {
            let l1 = crate::gen::layout::fixed_layout(&toks, crate::gen::layout::Fixed::OnePerLine);
            if crate::parse(&l1).is_some() {
                return l1;
            }
        }
    }
    p
}

fn program_text_inner(t: &mut Tape) -> String {
    if t.chance(150) {
        t.pick(POOL).to_string()
    } else {
        let focus = t.below(4) as u8;
        let cfg = GenCfg { max_items: 2, max_members: 4, max_stmts: 3, max_depth: 4, plant: 140, pragma_mode: 0, focus, ..Default::default() };
        let p = program::gen_program(t, &cfg);
        if crate::parse(&p).is_some() {
            p
        } else {
            POOL[0].to_string()
        }
    }
}

fn inert_content(t: &mut Tape) -> Vec<u8> {
    match t.below(6) {
        0 => b"this is not solidity {{{ ".to_vec(),
        1 => vec![0, 159, 146, 150, 255, 254, 0, 1, 2],
        2 => vec![0xff, 0xfe, 0xfd],
        3 => Vec::new(),
        4 => POOL[0].as_bytes().to_vec(), // a valid program with findings that must not count
        _ => b"contract Broken { function ( ".to_vec(),
    }
}

/// Inert content that fits a well-known project file name (a tool that starts to read such files
/// gives them influence on the result).
fn inert_content_for(name: &str, t: &mut Tape) -> Vec<u8> {
    match name {
        "foundry.toml" => format!("[profile.default]\nsrc = 'src'\nsolc = \"{v}\"\nsolc_version = \"{v}\"\nevm_version = 'paris'\n", v = t.pick(&["0.8.4", "0.7.6", "0.8.0", "0.6.12"])).into_bytes(),
        "remappings.txt" => b"@openzeppelin/=lib/openzeppelin-contracts/\nforge-std/=lib/forge-std/src/\n".to_vec(),
        "hardhat.config.js" => b"module.exports = { solidity: { version: \"0.7.6\" } };\n".to_vec(),
        "package.json" => b"{ \"name\": \"x\", \"devDependencies\": { \"solc\": \"0.8.4\" } }\n".to_vec(),
        ".solhint.json" => b"{ \"extends\": \"solhint:recommended\", \"rules\": { \"compiler-version\": [\"error\", \"^0.8.4\"] } }\n".to_vec(),
        "Solstat.toml" | "solstat.toml" => b"path = './nowhere'\noptimizations = [\"sstore\"]\nvulnerabilities = []\nqa = []\n".to_vec(),
        _ => inert_content(t),
    }
}

pub fn gen_dir(t: &mut Tape, cfg: &TreeCfg, depth: u32, skipped_undecided: &mut u64) -> Vec<Entry> {
    let n = t.range(if depth == 0 { 1 } else { 0 }, cfg.max_entries);
    let mut entries: Vec<Entry> = Vec::new();
    let mut used: Vec<String> = Vec::new();
    for k in 0..n {
        let roll = t.below(11);
        let (mut name, class, kind): (String, &'static str, Kind) = if roll == 10 {
            // an arbitrary (valid Unicode) stem with one of the interesting suffixes; the class follows from the predicate
            let alphabet: Vec<char> = "aZ9_-. \u{e9}\u{17f}\u{130}\u{df}\u{4e16}\u{1f600}tTsSoOlL'()[]{}#%&+,;=@~".chars().collect();
            let len = t.range(0, 7);
            let mut stem: String = (0..len).map(|_| *t.pick(&alphabet)).collect();
            let suffix = *t.pick(&[".sol", ".t.sol", ".T.sol", ".SOL", ".Sol", ".sol.txt", "", ".t.Sol", ".sol ", "sol", ".s.sol", ".tt.sol"]);
            stem.push_str(suffix);
            if stem.is_empty() || stem == "." || stem == ".." || stem.contains('/') {
                stem = format!("x{suffix}");
            }
            if eligible(&stem) {
                (stem, "eligible", Kind::File(program_text(t).into_bytes()))
            } else {
                (stem, "other-file", Kind::File(inert_content(t)))
            }
        } else if roll < 5 {
            let name = t.pick(ELIGIBLE_NAMES).to_string();
            (name, "eligible", Kind::File(program_text(t).into_bytes()))
        } else if roll < 7 && depth < cfg.max_depth {
            let name = t.pick(DIR_NAMES).to_string();
            let children = gen_dir(t, cfg, depth + 1, skipped_undecided);
            // (a symbolic link never gets a name that looks like a source file: a walker that does not
            // follow links would try to read it)
            if t.chance(40) && !name.ends_with(".sol") {
                (name, "directory", Kind::Link(children))
            } else {
                (name, "directory", Kind::Dir(children))
            }
        } else if roll < 8 {
            let name = t.pick(TEST_NAMES).to_string();
            (name, "test-file", Kind::File(inert_content(t)))
        } else {
            let name = t.pick(OTHER_NAMES).to_string();
            let content = inert_content_for(&name, t);
            (name, "other-file", Kind::File(content))
        };
        if undecided_name(&name) {
            *skipped_undecided += 1;
            continue;
        }
        if used.contains(&name) {
            // keep the class of the name: prefix an index
            name = format!("{k}{name}");
            if undecided_name(&name) || used.contains(&name) {
                continue;
            }
            // a prefixed inert name must stay inert, a prefixed eligible name eligible
            if (class == "eligible") != eligible(&name) && class != "directory" {
                continue;
            }
        }
        used.push(name.clone());
        entries.push(Entry { name, kind, class });
    }
    // creation order: a tape-chosen permutation
    let perm = t.permutation(entries.len());
    perm.into_iter().map(|i| entries[i].clone()).collect()
}

pub fn gen_tree(t: &mut Tape, cfg: &TreeCfg, skipped_undecided: &mut u64) -> Vec<Entry> {
    gen_dir(t, cfg, 0, skipped_undecided)
}

static COUNTER: AtomicU64 = AtomicU64::new(0);

pub fn scratch_base() -> PathBuf {
    let shm = Path::new("/dev/shm");
    if shm.is_dir() {
        return shm.to_path_buf();
    }
    std::env::temp_dir()
}

/// Remove scratch directories left behind by harness processes that no longer exist (killed by the
/// watchdog or from outside before their `Scratch` values were dropped).
pub fn cleanup_stale_scratch() {
    let base = scratch_base();
    if let Ok(rd) = std::fs::read_dir(&base) {
        for e in rd.flatten() {
            let name = e.file_name().to_string_lossy().to_string();
            if let Some(rest) = name.strip_prefix("vcheck-") {
                if let Some(pid) = rest.split('-').next().and_then(|p| p.parse::<u32>().ok()) {
                    if pid != std::process::id() && !Path::new(&format!("/proc/{pid}")).exists() {
                        let _ = std::fs::remove_dir_all(e.path());
                    }
                }
            }
        }
    }
}

/// A fresh scratch directory (removed by `Scratch::drop`).
pub struct Scratch {
    pub path: PathBuf,
}

impl Scratch {
    pub fn new(tag: &str) -> Scratch {
        let n = COUNTER.fetch_add(1, Ordering::SeqCst);
        let path = scratch_base().join(format!("vcheck-{}-{}-{}", std::process::id(), tag, n));
        let _ = std::fs::remove_dir_all(&path);
        std::fs::create_dir_all(&path).expect("create scratch dir");
        Scratch { path }
    }
}

impl Drop for Scratch {
    fn drop(&mut self) {
        let _ = std::fs::remove_dir_all(&self.path);
    }
}

/// Number of files created as a hard link of an earlier sibling (for the evidence).
pub static HARD_LINKS: AtomicU64 = AtomicU64::new(0);

/// Write a file; if an earlier sibling of the same directory holds the same bytes, every second such
/// file (by a hash of its name) becomes a hard link to that sibling instead of a file of its own:
/// two names of one inode are two files all the same.
fn write_file(entries: &[Entry], e: &Entry, bytes: &[u8], at: &Path) {
    let p = at.join(&e.name);
    // (never a file called solstat_report.md: a run whose working directory is this directory rewrites
    // that file in place, and with it every other name of the same inode)
    if crate::engine::fnv(&e.name) % 2 == 0 && !bytes.is_empty() && e.name != "solstat_report.md" {
        for prev in entries {
            if std::ptr::eq(prev, e) {
                break;
            }
            if let Kind::File(b) = &prev.kind {
                if prev.name != "solstat_report.md" && b.as_slice() == bytes && std::fs::hard_link(at.join(&prev.name), &p).is_ok() {
                    HARD_LINKS.fetch_add(1, Ordering::Relaxed);
                    return;
                }
            }
        }
    }
    std::fs::write(&p, bytes).expect("write file")
}

pub fn materialize(entries: &[Entry], at: &Path) {
    for e in entries {
        let p = at.join(&e.name);
        match &e.kind {
            Kind::File(bytes) => write_file(entries, e, bytes, at),
            Kind::Dir(children) | Kind::Link(children) => {
                std::fs::create_dir(&p).expect("create dir");
                materialize(children, &p);
            }
        }
    }
}

/// Like `materialize`, but `Kind::Link` entries become symbolic links to directories created under `links`.
pub fn materialize_with_links(entries: &[Entry], at: &Path, links: &Path) {
    // the first link targets get paths that are proper string prefixes of the tree's own path
    // (`<scratch>/tree` -> `<scratch>/tre`, `<scratch>/tr`, `<scratch>/t`): not ancestors, though a
    // comparison of path strings instead of path components takes them for ancestors
    let mut prefix_targets: Vec<PathBuf> = Vec::new();
    if let (Some(parent), Some(name)) = (at.parent(), at.file_name().and_then(|n| n.to_str())) {
        for k in 1..name.len().min(4) {
            if name.is_char_boundary(k) {
                prefix_targets.push(parent.join(&name[..k]));
            }
        }
    }
    materialize_with_links_inner(entries, at, links, &mut prefix_targets)
}

/// `target` written relative to the directory `from` (both absolute, under a common ancestor).
fn relative_to(from: &Path, target: &Path) -> Option<PathBuf> {
    let f: Vec<_> = from.components().collect();
    let t: Vec<_> = target.components().collect();
    let common = f.iter().zip(t.iter()).take_while(|(a, b)| a == b).count();
    if common == 0 {
        return None;
    }
    let mut out = PathBuf::new();
    for _ in common..f.len() {
        out.push("..");
    }
    for c in &t[common..] {
        out.push(c.as_os_str());
    }
    Some(out)
}

fn materialize_with_links_inner(entries: &[Entry], at: &Path, links: &Path, prefix_targets: &mut Vec<PathBuf>) {
    for e in entries {
        let p = at.join(&e.name);
        match &e.kind {
            Kind::File(bytes) => write_file(entries, e, bytes, at),
            Kind::Dir(children) => {
                std::fs::create_dir(&p).expect("create dir");
                materialize_with_links_inner(children, &p, links, prefix_targets);
            }
            Kind::Link(children) => {
                let n = COUNTER.fetch_add(1, Ordering::SeqCst);
                let target = match prefix_targets.pop() {
                    Some(t) if !t.exists() => t,
                    _ => links.join(format!("t{n}")),
                };
                std::fs::create_dir_all(&target).expect("create link target");
                materialize_with_links_inner(children, &target, links, prefix_targets);
                // every second link names its target relative to the directory the link lives in
                let link_text = if n % 2 == 0 { relative_to(at, &target).unwrap_or_else(|| target.clone()) } else { target.clone() };
                std::os::unix::fs::symlink(&link_text, &p).expect("symlink");
            }
        }
    }
}

/// All eligible files of a spec: (relative path, file name, text).
pub fn eligible_files(entries: &[Entry], prefix: &str, out: &mut Vec<(String, String, String)>) {
    for e in entries {
        let rel = if prefix.is_empty() { e.name.clone() } else { format!("{prefix}/{}", e.name) };
        match &e.kind {
            Kind::File(bytes) => {
                if eligible(&e.name) {
                    out.push((rel, e.name.clone(), String::from_utf8_lossy(bytes).to_string()));
                }
            }
            Kind::Dir(children) | Kind::Link(children) => eligible_files(children, &rel, out),
        }
    }
}

/// The same tree with every non-eligible *file* removed (directories kept).
pub fn strip_inert(entries: &[Entry]) -> Vec<Entry> {
    entries
        .iter()
        .filter_map(|e| match &e.kind {
            Kind::File(_) => {
                if eligible(&e.name) {
                    Some(e.clone())
                } else {
                    None
                }
            }
            Kind::Dir(c) => Some(Entry { name: e.name.clone(), class: e.class, kind: Kind::Dir(strip_inert(c)) }),
            Kind::Link(c) => Some(Entry { name: e.name.clone(), class: e.class, kind: Kind::Link(strip_inert(c)) }),
        })
        .collect()
}

/// The same tree without the directories reached through a symbolic link.
pub fn strip_links(entries: &[Entry]) -> Vec<Entry> {
    entries
        .iter()
        .filter_map(|e| match &e.kind {
            Kind::File(_) => Some(e.clone()),
            Kind::Dir(c) => Some(Entry { name: e.name.clone(), class: e.class, kind: Kind::Dir(strip_links(c)) }),
            Kind::Link(_) => None,
        })
        .collect()
}

/// Fixed shapes the random generator does not reach: chains of nested directories with an eligible
/// file (and optionally an inert one) at every level, and one wide directory.
/// `files_first`: files are created before (true) or after (false) the sub-directory of their level.
pub fn shaped_specs(with_inert: bool) -> Vec<(String, Vec<Entry>)> {
    fn file(name: String, k: usize) -> Entry {
        Entry { name, class: "eligible", kind: Kind::File(POOL[k % POOL.len()].as_bytes().to_vec()) }
    }
    fn inert(k: usize) -> Entry {
        match k % 4 {
            0 => Entry { name: format!("T{k}.t.sol"), class: "test-file", kind: Kind::File(b"this is not solidity {".to_vec()) },
            1 => Entry { name: format!("B{k}.bin"), class: "other", kind: Kind::File(vec![0xff, 0xfe, 0x00, 0x80]) },
            3 => Entry { name: "foundry.toml".into(), class: "other", kind: Kind::File(b"[profile.default]\nsolc = \"0.8.4\"\nsolc_version = \"0.7.6\"\n".to_vec()) },
            _ => Entry { name: format!("U{k}.SOL"), class: "other", kind: Kind::File(POOL[k % POOL.len()].as_bytes().to_vec()) },
        }
    }
    fn chain(level: usize, depth: usize, files_first: bool, with_inert: bool) -> Vec<Entry> {
        let mut v = vec![file(format!("F{level}.sol"), level)];
        if with_inert {
            v.push(inert(level));
        }
        if level < depth {
            let d = Entry { name: format!("L{level}"), class: "directory", kind: Kind::Dir(chain(level + 1, depth, files_first, with_inert)) };
            if files_first {
                v.push(d);
            } else {
                v.insert(0, d);
            }
        }
        v
    }
    let mut out = Vec::new();
    for depth in [5usize, 8, 16, 40] {
        for files_first in [true, false] {
            out.push((format!("chain-depth-{depth}-files-{}", if files_first { "first" } else { "last" }), chain(0, depth, files_first, with_inert)));
        }
    }
    let mut wide: Vec<Entry> = Vec::new();
    for i in 0..300usize {
        wide.push(file(format!("W{i}.sol"), i));
        if with_inert && i % 3 == 0 {
            let e = inert(i);
            if !wide.iter().any(|w| w.name == e.name) {
                wide.push(e);
            }
        }
        if i == 150 {
            wide.push(Entry { name: "Sub".into(), class: "directory", kind: Kind::Dir((0..3).map(|j| file(format!("S{j}.sol"), j + 1)).collect()) });
        }
    }
    out.push(("wide-directory-300-files".into(), wide));
    out
}

pub fn count(entries: &[Entry], pred: &dyn Fn(&Entry) -> bool) -> usize {
    entries
        .iter()
        .map(|e| {
            (if pred(e) { 1 } else { 0 })
                + match &e.kind {
                    Kind::Dir(c) | Kind::Link(c) => count(c, pred),
                    _ => 0,
                }
        })
        .sum()
}

pub fn depth(entries: &[Entry]) -> usize {
    entries
        .iter()
        .map(|e| match &e.kind {
            Kind::Dir(c) | Kind::Link(c) => 1 + depth(c),
            _ => 0,
        })
        .max()
        .unwrap_or(0)
}

pub fn to_json(entries: &[Entry]) -> Value {
    Value::Array(
        entries
            .iter()
            .map(|e| match &e.kind {
                Kind::File(b) => match std::str::from_utf8(b) {
                    Ok(s) => json!({"name": e.name, "text": s}),
                    Err(_) => json!({"name": e.name, "bytes": b}),
                },
                Kind::Dir(c) => json!({"name": e.name, "dir": to_json(c)}),
                Kind::Link(c) => json!({"name": e.name, "dir": to_json(c), "symlink": true}),
            })
            .collect(),
    )
}

pub fn from_json(v: &Value) -> Vec<Entry> {
    let mut out = Vec::new();
    if let Some(a) = v.as_array() {
        for e in a {
            let name = e.get("name").and_then(|n| n.as_str()).unwrap_or("x").to_string();
            let kind = if let Some(d) = e.get("dir") {
                if e.get("symlink").and_then(|b| b.as_bool()).unwrap_or(false) {
                    Kind::Link(from_json(d))
                } else {
                    Kind::Dir(from_json(d))
                }
            } else if let Some(t) = e.get("text").and_then(|t| t.as_str()) {
                Kind::File(t.as_bytes().to_vec())
            } else {
                Kind::File(e.get("bytes").and_then(|b| b.as_array()).map(|a| a.iter().filter_map(|x| x.as_u64().map(|x| x as u8)).collect()).unwrap_or_default())
            };
            out.push(Entry { name, kind, class: "replayed" });
        }
    }
    out
}
