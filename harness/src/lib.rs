pub mod engine;
pub mod gen;
pub mod patterns;
pub mod props;
pub mod refmodel;
pub mod tape;

use solang_parser::pt;

/// Parse with the parser solstat uses; `None` when the parser rejects the text
/// or panics (such inputs are outside every property's domain).
pub fn parse(text: &str) -> Option<pt::SourceUnit> {
    match engine::catch(|| solang_parser::parse(text, 0)) {
        Ok(Ok((su, _))) => Some(su),
        _ => None,
    }
}

/// 1-based line of a byte offset: one plus the number of line feeds before it.
pub fn line_of(text: &str, off: usize) -> i32 {
    1 + text.as_bytes()[..off.min(text.len())].iter().filter(|b| **b == b'\n').count() as i32
}
