use std::path::PathBuf;
use std::time::Instant;
use vcheck::engine::*;

fn usage() -> ! {
    eprintln!("usage: vcheck <ID> --tier quick|thorough [--profile NAME]\n       vcheck <ID> --replay <file>");
    std::process::exit(2)
}

fn main() {
    let args: Vec<String> = std::env::args().collect();
    if args.len() < 2 {
        usage();
    }
    if args[1] == "__c15-baseline" {
        // child side of C15's fresh-process phase
        install_panic_hook();
        let seed = args.get(2).and_then(|s| s.parse().ok()).unwrap_or(0);
        let order = args.get(3).and_then(|s| s.parse().ok()).unwrap_or(0);
        vcheck::props::c15::child_baseline(seed, order);
        return;
    }
    if args[1] == "probe" {
        // vcheck probe <file>...: is the text accepted by the parser, and what does each detector report
        install_panic_hook();
        for f in &args[2..] {
            let text = std::fs::read_to_string(f).unwrap_or_default();
            let ok = vcheck::parse(&text).is_some();
            println!("{f}: parser-accepted={ok}");
            if std::env::var("VCHECK_PROBE_TOKENS").is_ok() {
                if let Some(toks) = vcheck::gen::layout::tokenize(&text) {
                    for t in toks {
                        println!("  token {:?}{}", t.text, if t.in_pragma { " (in pragma)" } else { "" });
                    }
                }
            }
            if ok {
                for p in vcheck::patterns::all() {
                    match catch(|| p.analyze(&text, 0)) {
                        Ok(l) if l.is_empty() => {}
                        Ok(l) => println!("  {:<34} {:?}", p.name, l),
                        Err(site) => println!("  {:<34} PANIC {site}", p.name),
                    }
                }
            }
        }
        return;
    }
    let prop = args[1].clone();
    let mut tier = match std::env::var("VERIF_TIER").as_deref() {
        Ok("thorough") => Tier::Thorough,
        _ => Tier::Quick,
    };
    let mut replay: Option<String> = None;
    let mut profile = "release".to_string();
    let mut i = 2;
    while i < args.len() {
        match args[i].as_str() {
            "--tier" => {
                i += 1;
                tier = match args.get(i).map(|s| s.as_str()) {
                    Some("quick") => Tier::Quick,
                    Some("thorough") => Tier::Thorough,
                    _ => usage(),
                }
            }
            "--replay" => {
                i += 1;
                replay = Some(args.get(i).cloned().unwrap_or_else(|| usage()));
            }
            "--profile" => {
                i += 1;
                profile = args.get(i).cloned().unwrap_or_else(|| usage());
            }
            _ => usage(),
        }
        i += 1;
    }
    let seed = std::env::var("VERIF_SEED").ok().and_then(|s| s.trim().parse::<i64>().ok()).unwrap_or(0) as u64;
    let verif = PathBuf::from(std::env::var("VERIF_DIR").unwrap_or_else(|_| "/verif".into()));
    let env = Env {
        prop: prop.clone(),
        tier,
        seed,
        known: Known::load(&verif),
        verif,
        repo: PathBuf::from(std::env::var("VCHECK_REPO").unwrap_or_else(|_| "/repo".into())),
        profile,
        start: Instant::now(),
        strict: replay.is_some(),
    };
    install_panic_hook();
    vcheck::gen::tree::cleanup_stale_scratch();
    start_watchdog(match tier {
        Tier::Quick => 1800,
        Tier::Thorough => 3 * 3600,
    });
    if let Some(file) = replay {
        let txt = std::fs::read_to_string(&file).unwrap_or_else(|e| {
            eprintln!("cannot read {file}: {e}");
            std::process::exit(2)
        });
        let doc: serde_json::Value = serde_json::from_str(&txt).unwrap_or_else(|e| {
            eprintln!("bad replay file: {e}");
            std::process::exit(2)
        });
        let check = doc.get("check").and_then(|c| c.as_str()).unwrap_or("").to_string();
        let case = doc.get("case").cloned().unwrap_or(serde_json::Value::Null);
        let mut st = Stats::default();
        match vcheck::props::replay(&env, &check, &case, &mut st) {
            None => {
                eprintln!("unknown property {prop}");
                std::process::exit(2)
            }
            Some(vs) => {
                if vs.is_empty() {
                    println!("replay: property {prop} holds on this case");
                    std::process::exit(0)
                }
                for v in &vs {
                    println!("VIOLATION property={} replay={}", prop, file);
                    println!("  signature: {}", v.sig);
                    println!("  what: {}", v.what);
                }
                std::process::exit(1)
            }
        }
    }
    // a panic of the harness itself (outside the guarded calls into solstat) is a harness error, never a verdict
    match std::panic::catch_unwind(std::panic::AssertUnwindSafe(|| vcheck::props::run(&env))) {
        Ok(Some(code)) => std::process::exit(code),
        Ok(None) => {
            eprintln!("unknown property {prop}");
            std::process::exit(2)
        }
        Err(_) => {
            eprintln!("HARNESS-ERROR: the harness panicked outside a guarded call (message above); result inconclusive");
            std::process::exit(2)
        }
    }
}
