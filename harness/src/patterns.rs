//! The 30 patterns: documented name, category, enum value, detector function.
//! Hand-written table (independent of `str_to_*`).

use solang_parser::pt::{Loc, SourceUnit};
use solstat::analyzer::optimizations::{self as opt, Optimization as O};
use solstat::analyzer::qa::{self, QualityAssurance as Q};
use solstat::analyzer::vulnerabilities::{self as vul, Vulnerability as V};
use std::collections::{BTreeSet, HashSet};

#[derive(Clone, Copy, Debug, PartialEq, Eq, Hash)]
pub enum Pat {
    Opt(O),
    Vuln(V),
    Qa(Q),
}

#[derive(Clone, Copy)]
pub struct P {
    pub name: &'static str,
    pub pat: Pat,
    pub detect: fn(SourceUnit) -> HashSet<Loc>,
}

impl P {
    pub fn category(&self) -> &'static str {
        match self.pat {
            Pat::Opt(_) => "optimizations",
            Pat::Vuln(_) => "vulnerabilities",
            Pat::Qa(_) => "qa",
        }
    }
    /// Lines via the per-file analysis entry point of the category.
    pub fn analyze(&self, text: &str, file_no: usize) -> BTreeSet<i32> {
        match self.pat {
            Pat::Opt(o) => opt::analyze_for_optimization(text, file_no, o),
            Pat::Vuln(v) => vul::analyze_for_vulnerability(text, file_no, v),
            Pat::Qa(q) => qa::analyze_for_qa(text, file_no, q),
        }
    }
}

pub fn all() -> Vec<P> {
    vec![
        P { name: "address_balance", pat: Pat::Opt(O::AddressBalance), detect: opt::address_balance::address_balance_optimization },
        P { name: "address_zero", pat: Pat::Opt(O::AddressZero), detect: opt::address_zero::address_zero_optimization },
        P { name: "assign_update_array_value", pat: Pat::Opt(O::AssignUpdateArrayValue), detect: opt::assign_update_array_value::assign_update_array_optimization },
        P { name: "bool_equals_bool", pat: Pat::Opt(O::BoolEqualsBool), detect: opt::bool_equals_bool::bool_equals_bool_optimization },
        P { name: "cache_array_length", pat: Pat::Opt(O::CacheArrayLength), detect: opt::cache_array_length::cache_array_length_optimization },
        P { name: "constant_variables", pat: Pat::Opt(O::ConstantVariables), detect: opt::constant_variables::constant_variable_optimization },
        P { name: "immutable_variables", pat: Pat::Opt(O::ImmutableVarialbes), detect: opt::immutable_variables::immutable_variables_optimization },
        P { name: "increment_decrement", pat: Pat::Opt(O::IncrementDecrement), detect: opt::increment_decrement::increment_decrement_optimization },
        P { name: "memory_to_calldata", pat: Pat::Opt(O::MemoryToCalldata), detect: opt::memory_to_calldata::memory_to_calldata_optimization },
        P { name: "multiple_require", pat: Pat::Opt(O::MultipleRequire), detect: opt::multiple_require::multiple_require_optimization },
        P { name: "optimal_comparison", pat: Pat::Opt(O::OptimalComparison), detect: opt::optimal_comparison::optimal_comparison_optimization },
        P { name: "pack_storage_variables", pat: Pat::Opt(O::PackStorageVariables), detect: opt::pack_storage_variables::pack_storage_variables_optimization },
        P { name: "pack_struct_variables", pat: Pat::Opt(O::PackStructVariables), detect: opt::pack_struct_variables::pack_struct_variables_optimization },
        P { name: "payable_function", pat: Pat::Opt(O::PayableFunction), detect: opt::payable_function::payable_function_optimization },
        P { name: "private_constant", pat: Pat::Opt(O::PrivateConstant), detect: opt::private_constant::private_constant_optimization },
        P { name: "safe_math_pre_080", pat: Pat::Opt(O::SafeMathPre080), detect: opt::safe_math::safe_math_pre_080_optimization },
        P { name: "safe_math_post_080", pat: Pat::Opt(O::SafeMathPost080), detect: opt::safe_math::safe_math_post_080_optimization },
        P { name: "shift_math", pat: Pat::Opt(O::ShiftMath), detect: opt::shift_math::shift_math_optimization },
        P { name: "short_revert_string", pat: Pat::Opt(O::ShortRevertString), detect: opt::short_revert_string::short_revert_string_optimization },
        P { name: "solidity_keccak256", pat: Pat::Opt(O::SolidityKeccak256), detect: opt::solidity_keccak256::solidity_keccak256_optimization },
        P { name: "solidity_math", pat: Pat::Opt(O::SolidityMath), detect: opt::solidity_math::solidity_math_optimization },
        P { name: "sstore", pat: Pat::Opt(O::Sstore), detect: opt::sstore::sstore_optimization },
        P { name: "string_errors", pat: Pat::Opt(O::StringErrors), detect: opt::string_errors::string_error_optimization },
        P { name: "divide_before_multiply", pat: Pat::Vuln(V::DivideBeforeMultiply), detect: vul::divide_before_multiply::divide_before_multiply_vulnerability },
        P { name: "floating_pragma", pat: Pat::Vuln(V::FloatingPragma), detect: vul::floating_pragma::floating_pragma_vulnerability },
        P { name: "unprotected_selfdestruct", pat: Pat::Vuln(V::UnprotectedSelfdestruct), detect: vul::unprotected_selfdestruct::unprotected_selfdestruct_vulnerability },
        P { name: "unsafe_erc20_operation", pat: Pat::Vuln(V::UnsafeERC20Operation), detect: vul::unsafe_erc20_operation::unsafe_erc20_operation_vulnerability },
        P { name: "constructor_order", pat: Pat::Qa(Q::ConstructorOrder), detect: qa::constructor_order::constructor_order_qa },
        P { name: "private_vars_leading_underscore", pat: Pat::Qa(Q::PrivateVarsLeadingUnderscore), detect: qa::private_vars_leading_underscore::private_vars_leading_underscore },
        P { name: "private_func_leading_underscore", pat: Pat::Qa(Q::PrivateFuncLeadingUnderscore), detect: qa::private_func_leading_underscore::private_func_leading_underscore },
    ]
}

pub fn by_name(name: &str) -> Option<P> {
    all().into_iter().find(|p| p.name == name)
}
