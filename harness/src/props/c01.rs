//! C01 — a pattern is found wherever it is nested.
//!
//! Oracle: `walk_node_for_targets(set, root)` (and the two `extract_*` entry
//! points) must equal, as a sequence of `Node` values, the reference pre-order
//! traversal of `root` filtered by kind.

use crate::engine::*;
use crate::gen::{matrix, program};
use crate::refmodel::walk::{self, Item, NodeRef, K, ALL_KINDS};
use crate::tape::Tape;
use serde_json::{json, Value};
use solstat::analyzer::ast::{self, Node, Target};
use std::collections::{BTreeMap, HashSet};

/// The exact target sets the 30 detectors pass to the search.
pub fn detector_sets() -> Vec<Vec<K>> {
    let writes = vec![
        K::Assign, K::PreIncrement, K::PostIncrement, K::PreDecrement, K::PostDecrement, K::AssignAdd,
        K::AssignAnd, K::AssignDivide, K::AssignModulo, K::AssignMultiply, K::AssignOr,
        K::AssignShiftLeft, K::AssignShiftRight, K::AssignSubtract, K::AssignXor,
    ];
    vec![
        vec![K::MemberAccess],
        vec![K::Equal, K::NotEqual],
        vec![K::Assign],
        vec![K::For],
        writes,
        vec![K::ContractDefinition],
        vec![K::FunctionDefinition],
        vec![K::Block],
        vec![K::PreIncrement, K::PreDecrement, K::PostIncrement, K::PostDecrement],
        vec![K::PreIncrement, K::PreDecrement],
        vec![K::FunctionCall],
        vec![K::MoreEqual, K::LessEqual],
        vec![K::StructDefinition],
        vec![K::Using],
        vec![K::Multiply, K::Divide],
        vec![K::Add, K::Subtract, K::Multiply, K::Divide],
        vec![K::PragmaDirective],
        vec![K::Multiply, K::AssignDivide],
    ]
}

fn key(n: &Node) -> String {
    format!("{:?}", n).chars().take(160).collect()
}

fn node_loc(item: &Item) -> String {
    match item.node.loc() {
        Some(l) => format!("{:?}", l),
        None => "-".into(),
    }
}

/// Compare one (root, set) pair; returns a violation signature + description on mismatch.
fn compare(root_items: &[Item], set: &[K], actual: &[Node]) -> Option<(String, String)> {
    let kset: HashSet<K> = set.iter().copied().collect();
    let expected: Vec<&Item> = root_items.iter().filter(|i| kset.contains(&i.kind)).collect();
    let exp_nodes: Vec<Node> = expected.iter().map(|i| i.node.to_node()).collect();
    if exp_nodes.as_slice() == actual {
        return None;
    }
    // diagnose: missing / duplicated / unexpected / order
    let mut exp_count: BTreeMap<String, (usize, usize)> = BTreeMap::new(); // key -> (count, first idx)
    for (i, n) in exp_nodes.iter().enumerate() {
        let e = exp_count.entry(key(n)).or_insert((0, i));
        e.0 += 1;
    }
    let mut act_count: BTreeMap<String, usize> = BTreeMap::new();
    for n in actual {
        *act_count.entry(key(n)).or_insert(0) += 1;
    }
    for (i, n) in exp_nodes.iter().enumerate() {
        let k = key(n);
        let have = act_count.get(&k).copied().unwrap_or(0);
        if have < exp_count[&k].0 {
            let it = expected[i];
            return Some((
                format!("missing:{}", it.class),
                format!(
                    "{} node at {} in slot {} (depth {}) is not returned",
                    it.kind.name(),
                    node_loc(it),
                    it.class,
                    it.ctx.depth
                ),
            ));
        }
    }
    for n in actual {
        let k = key(n);
        match exp_count.get(&k) {
            None => {
                return Some((
                    format!("unexpected:{}", key(n).split('(').next().unwrap_or("?")),
                    format!("a node that is not of a requested kind (or not under the root) is returned: {}", k),
                ))
            }
            Some((c, idx)) => {
                if act_count[&k] > *c {
                    let it = expected[*idx];
                    return Some((
                        format!("duplicate:{}", it.class),
                        format!("{} node at {} in slot {} is returned more than once", it.kind.name(), node_loc(it), it.class),
                    ));
                }
            }
        }
    }
    let pos = exp_nodes.iter().zip(actual).position(|(a, b)| a != b).unwrap_or(0);
    let it = expected[pos.min(expected.len() - 1)];
    Some((
        format!("order:{}", it.class),
        format!("nodes are not returned in source (pre-)order, first difference at result index {} ({} in slot {})", pos, it.kind.name(), it.class),
    ))
}

fn target_set(set: &[K]) -> HashSet<Target> {
    set.iter().map(|k| k.to_target()).collect()
}

pub struct Selection {
    pub roots: Vec<usize>,
    pub sets: Vec<Vec<K>>,
}

fn kinds_by_name(names: &[String]) -> Vec<K> {
    names.iter().filter_map(|n| ALL_KINDS.iter().copied().find(|k| k.name() == n)).collect()
}

/// Check one text.  `sel = None` means "all roots (bounded), standard sets".
pub fn check_text(check: &str, text: &str, sel: Option<&Selection>, st: &mut Stats) -> Vec<Violation> {
    let mut out = Vec::new();
    let su = match crate::parse(text) {
        Some(su) => su,
        None => {
            st.count("discarded_not_parseable");
            return out;
        }
    };
    let items = walk::walk_source_unit(&su);
    // oracle self-check: sibling start offsets non-decreasing in pre-order is implied by
    // non-decreasing starts along the whole pre-order sequence *within one parent*;
    // we check the weaker global property on expression statements only via locs below.
    for it in &items {
        st.mark("position_classes", it.class);
    }
    // kind tables
    for it in &items {
        let expected = it.kind.to_target();
        let actual = match it.node {
            NodeRef::SourceUnit(_) => Target::SourceUnit,
            NodeRef::Part(p) => ast::source_unit_part_as_target(p),
            NodeRef::CPart(p) => ast::contract_part_as_target(p),
            NodeRef::Stmt(s) => ast::statement_as_target(s),
            NodeRef::Expr(e) => ast::expression_as_target(e),
        };
        let via_node = it.node.to_node().as_target();
        if actual != expected || via_node != expected {
            out.push(Violation::new(
                check,
                format!("kind-table:{}", it.kind.name()),
                format!("a {} node at {} is classified as a different kind", it.kind.name(), node_loc(it)),
                json!({"text": text}),
            ));
            return out;
        }
    }
    let present: Vec<K> = {
        let s: HashSet<K> = items.iter().map(|i| i.kind).collect();
        let mut v: Vec<K> = s.into_iter().collect();
        v.sort();
        v
    };
    let default_sel;
    let sel = match sel {
        Some(s) => s,
        None => {
            let step = (items.len() / 120).max(1);
            let mut sets: Vec<Vec<K>> = present.iter().map(|k| vec![*k]).collect();
            sets.extend(detector_sets());
            sets.push(present.clone());
            sets.push(vec![K::None, K::Block, K::Expression]);
            default_sel = Selection { roots: (0..items.len()).step_by(step).collect(), sets };
            &default_sel
        }
    };
    let full_classes: Vec<&'static str> = items.iter().map(|i| i.class).collect();
    for &ri in &sel.roots {
        if ri >= items.len() {
            continue;
        }
        let root = items[ri].node;
        let root_items = if ri == 0 { None } else { Some(walk::walk_from(root)) };
        let ritems: &[Item] = match &root_items {
            Some(v) => v,
            None => &items,
        };
        st.mark("root_sorts", root.sort());
        for set in &sel.sets {
            if set.is_empty() {
                continue;
            }
            st.evaluations += 1;
            let tset = target_set(set);
            let node = root.to_node();
            let actual = match catch(|| ast::walk_node_for_targets(&tset, node)) {
                Ok(a) => a,
                Err(site) => {
                    out.push(Violation::new(check, format!("panic:{site}"), format!("the tree search panicked at {site}"), json!({"text": text})));
                    return out;
                }
            };
            // non-triviality
            let kset: HashSet<K> = set.iter().copied().collect();
            let mut nontrivial = false;
            let mut any = false;
            if ri == 0 {
                for (i, it) in items.iter().enumerate() {
                    if kset.contains(&it.kind) {
                        any = true;
                        if !walk::TEST_REACHED_CLASSES.contains(&full_classes[i]) {
                            nontrivial = true;
                            st.mark("nontrivial_classes_hit", full_classes[i]);
                        }
                    }
                }
            } else {
                for it in ritems {
                    if kset.contains(&it.kind) {
                        any = true;
                        if !walk::TEST_REACHED_CLASSES.contains(&it.class) {
                            nontrivial = true;
                        }
                    }
                }
            }
            if any && nontrivial {
                st.nontrivial(&(text, ri, set.iter().map(|k| k.name()).collect::<Vec<_>>()));
            }
            let mut bad = compare(ritems, set, &actual);
            // the two convenience entry points
            if bad.is_none() {
                if set.len() == 1 {
                    let a2 = ast::extract_target_from_node(set[0].to_target(), root.to_node());
                    if a2 != actual {
                        bad = Some(("entry-point:extract_target_from_node".into(), "extract_target_from_node differs from walk_node_for_targets".into()));
                    }
                } else {
                    let mut v: Vec<Target> = set.iter().map(|k| k.to_target()).collect();
                    v.push(set[0].to_target()); // duplicates in the vector must not matter
                    let a2 = ast::extract_targets_from_node(v, root.to_node());
                    if a2 != actual {
                        bad = Some(("entry-point:extract_targets_from_node".into(), "extract_targets_from_node differs from walk_node_for_targets".into()));
                    }
                }
            }
            if let Some((sig, what)) = bad {
                out.push(Violation::new(
                    check,
                    sig,
                    what,
                    json!({
                        "text": text,
                        "roots": [ri],
                        "root_sort": root.sort(),
                        "sets": [set.iter().map(|k| k.name()).collect::<Vec<_>>()],
                    }),
                ));
                if out.len() >= 4 {
                    return out;
                }
            }
        }
    }
    out
}

pub fn selection_from_case(case: &Value) -> Option<Selection> {
    let roots = case.get("roots")?.as_array()?.iter().filter_map(|v| v.as_u64().map(|x| x as usize)).collect();
    let sets = case
        .get("sets")?
        .as_array()?
        .iter()
        .map(|s| kinds_by_name(&s.as_array().map(|a| a.iter().filter_map(|x| x.as_str().map(String::from)).collect::<Vec<_>>()).unwrap_or_default()))
        .collect();
    Some(Selection { roots, sets })
}

pub fn replay(_env: &Env, check: &str, case: &Value, st: &mut Stats) -> Vec<Violation> {
    let text = case.get("text").and_then(|t| t.as_str()).unwrap_or("");
    let sel = selection_from_case(case);
    let mut v = check_text(check, text, sel.as_ref(), st);
    if v.is_empty() && sel.is_some() {
        v = check_text(check, text, None, st);
    }
    v
}

fn random_case(tape: &[u8], cfg: &program::GenCfg, st: &mut Stats) -> Vec<Violation> {
    let mut t = Tape::new(tape);
    let text = program::gen_program(&mut t, cfg);
    let su = match crate::parse(&text) {
        Some(su) => su,
        None => {
            st.count("generator_rejected_by_parser");
            st.sample(2, || json!({"rejected": text}));
            return vec![];
        }
    };
    st.count("generated_parseable");
    let items = walk::walk_source_unit(&su);
    let n = items.len();
    // roots: file + up to 8 tape-chosen sub-nodes
    let mut roots = vec![0usize];
    for _ in 0..8 {
        roots.push(t.below(n));
    }
    let present: Vec<K> = {
        let s: HashSet<K> = items.iter().map(|i| i.kind).collect();
        let mut v: Vec<K> = s.into_iter().collect();
        v.sort();
        v
    };
    let mut sets: Vec<Vec<K>> = Vec::new();
    // a few singletons, all detector sets on the file root, random subsets
    for _ in 0..4 {
        sets.push(vec![*t.pick(&present)]);
    }
    let ds = detector_sets();
    for _ in 0..4 {
        sets.push(t.pick(&ds).clone());
    }
    for _ in 0..2 {
        let mut s = Vec::new();
        let m = t.range(1, 6);
        for _ in 0..m {
            s.push(*t.pick(ALL_KINDS));
        }
        sets.push(s);
    }
    sets.push(present.clone());
    drop(items);
    let sel = Selection { roots, sets };
    st.sample(3, || json!({"text": text, "roots": sel.roots, "sets": sel.sets.iter().map(|s| s.iter().map(|k| k.name()).collect::<Vec<_>>()).collect::<Vec<_>>()}));
    check_text("random", &text, Some(&sel), st)
}


/// Bounded (root, set) selection for the fuzz target: file root + 6 evenly spread sub-roots,
/// the detectors' kind sets and the set of all kinds present.
pub fn fuzz_selection(text: &str) -> Option<Selection> {
    let su = crate::parse(text)?;
    let items = walk::walk_source_unit(&su);
    let n = items.len();
    let mut roots = vec![0usize];
    for k in 1..=6 {
        roots.push(k * n / 7);
    }
    let present: Vec<K> = {
        let s: HashSet<K> = items.iter().map(|i| i.kind).collect();
        let mut v: Vec<K> = s.into_iter().collect();
        v.sort();
        v
    };
    let mut sets = detector_sets();
    sets.push(present);
    Some(Selection { roots, sets })
}

/// Decode a fuzz input of the structure-aware target `fz_tape` into a program text.
pub fn text_of_fuzz_tape(data: &[u8]) -> Option<String> {
    if data.is_empty() {
        return None;
    }
    let focus = data[0] % 4;
    let mut t = Tape::new(&data[1..]);
    let cfg = program::GenCfg { undecided: true, plant: 100, focus, max_depth: 7, ..Default::default() };
    Some(program::gen_program(&mut t, &cfg))
}

pub fn run(env: &Env) -> i32 {
    let mut st = Stats::default();
    // regressions
    for (name, check, case) in regression_cases(env) {
        st.count("regressions_replayed");
        let vs = replay(env, &check, &case, &mut st);
        let vs = filter_known(env, &mut st, vs);
        if !vs.is_empty() {
            eprintln!("regression {name} fails");
        }
        st.violations.extend(vs);
    }
    // slot matrix (always complete)
    let inst = matrix::instances();
    let n_inst = inst.len() as u64;
    enum_stream(env, &mut st, n_inst, |i, s| {
        let (_ti, text) = &inst[i as usize];
        if crate::parse(text).is_none() {
            s.count("matrix_instances_rejected_by_parser");
            s.mark("matrix_rejected", text);
            return vec![];
        }
        s.count("matrix_instances");
        let before = s.evaluations;
        let v = check_text("matrix", text, None, s);
        if s.evaluations == before {
            s.evaluations += 1;
        }
        v
    });
    let fz = fuzz_inputs();
    let mut fuzz_stats = json!({"status": "not run in this tier"});
    if let Some(fz) = &fz {
        fuzz_stats = fz.stats.clone();
        enum_stream(env, &mut st, fz.inputs.len() as u64, |i, s| {
            match text_of_fuzz_tape(&fz.inputs[i as usize].1) {
                Some(text) => {
                    s.count("fuzz_inputs_replayed");
                    check_text("fuzz-corpus", &text, None, s)
                }
                None => vec![],
            }
        });
    }
    // deep nesting: chains, ladders and parentheses far deeper than the random streams reach
    {
        let mut deep: Vec<String> = Vec::new();
        for n in [40usize, 63, 64, 65, 70, 100, 200, 400] {
            let chain = (0..n).map(|k| format!("v{k}")).collect::<Vec<_>>().join(" + ");
            deep.push(format!("contract D {{ function f ( ) public {{ x = {chain} >= 1 ; }} }}"));
            let parens = format!("{}a >= b{}", "( ".repeat(n), " )".repeat(n));
            deep.push(format!("contract D {{ function f ( ) public {{ x = {parens} ; }} }}"));
            let mut ladder = String::from("if ( c0 >= 0 ) { i ++ ; }");
            for k in 1..n {
                ladder.push_str(&format!(" else if ( c{k} >= {k} ) {{ ++ i ; }}"));
            }
            deep.push(format!("contract D {{ function f ( ) public {{ {ladder} }} }}"));
            let mut nest = String::from("x = a >= b ;");
            for _ in 0..n {
                nest = format!("{{ {nest} }}");
            }
            deep.push(format!("contract D {{ function f ( ) public {{ {nest} }} }}"));
            let idx = format!("a{}", " [ i ++ ]".repeat(n));
            deep.push(format!("contract D {{ function f ( ) public {{ x = {idx} ; }} }}"));
        }
        enum_stream(env, &mut st, deep.len() as u64, |i, s| {
            let text = &deep[i as usize];
            if crate::parse(text).is_none() {
                s.count("deep_family_rejected_by_parser");
                return vec![];
            }
            s.count("deep_family_files");
            // file root and the function body, with the comparison / inc-dec / variable kinds
            let sel = Selection { roots: vec![0, 1, 2, 3, 4, 5], sets: vec![vec![K::MoreEqual], vec![K::PostIncrement, K::PreIncrement], vec![K::Variable], vec![K::Block, K::If], detector_sets()[4].clone()] };
            let v = check_text("deep", text, Some(&sel), s);
            let d = crate::parse(text).map(|su| walk::max_depth(&su)).unwrap_or(0);
            s.mark("deep_family_depths", &format!("{:04}", d));
            v
        });
    }
    // random programs
    let cfg = program::GenCfg { undecided: true, plant: 70, ..Default::default() };
    tape_stream(env, &mut st, "random", env.tier.n(16_000, 400_000), 1500, |tape, s| random_case(tape, &cfg, s));
    let cfg_deep = program::GenCfg { undecided: true, plant: 40, max_depth: 12, max_stmts: 3, pragma_mode: 1, ..Default::default() };
    tape_stream(env, &mut st, "random-deep", env.tier.n(3000, 80_000), 3000, |tape, s| random_case(tape, &cfg_deep, s));

    let classes = st.sets.get("position_classes").map(|s| s.len()).unwrap_or(0) as u64;
    let rejected = st.counters.get("generator_rejected_by_parser").copied().unwrap_or(0);
    let accepted = st.counters.get("generated_parseable").copied().unwrap_or(0);
    let mrej = st.counters.get("matrix_instances_rejected_by_parser").copied().unwrap_or(0);
    let meta = Meta {
        rule: "cases = (file text, root node, kind set); generated from the slot matrix (every child slot x marker) and from tape-decoded random programs (proptest, shrinking on the byte tape); non-trivial = the expected result is non-empty and contains a node in a position class other than those the repository's 70 tests reach (function-body statements, binary operands, plain call arguments, initialisers); distinct by (text, root, set)".into(),
        assumptions: vec![
            "solang-parser 0.1.18 is shared by solstat and the oracle; the property is relative to its parse tree".into(),
            "the reference traversal (harness/src/refmodel/walk.rs, exhaustive matches, no wildcard arms) is correct".into(),
        ],
        extra: json!({
            "matrix_templates": matrix::templates().len(),
            "matrix_instances": n_inst,
            "exhaustive_subdomains": ["slot matrix: every template x every marker of its sort"],
            "generator_acceptance": {"accepted": accepted, "rejected": rejected},
            "fuzz": fuzz_stats,
        }),
        floors: vec![
            ("position classes hit".into(), classes, 163),
            ("random programs accepted by the parser (percent)".into(), if accepted + rejected == 0 { 100 } else { accepted * 100 / (accepted + rejected) }, 90),
            ("matrix instances accepted (percent)".into(), (n_inst - mrej) * 100 / n_inst.max(1), 85),
        ],
    };
    finish(env, st, meta)
}
