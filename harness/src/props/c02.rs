//! C02 — every reported line is the line on which the flagged construct begins.
//!
//! (a) `utils::get_line_number` against the line model (1 + number of LF bytes
//!     before the offset): bounded-exhaustive over short strings, random texts.
//! (b) end to end: for generated programs under several layouts and all 30
//!     patterns, `analyze_for_*` must equal { line(text, loc.start) : loc in detector(parse(text)) }.

use crate::engine::*;
use crate::gen::{layout, program};
use crate::patterns;
use crate::tape::Tape;
use crate::line_of;
use serde_json::{json, Value};
use solstat::analyzer::utils::get_line_number;
use std::collections::BTreeSet;

const ALPHA: [&str; 6] = ["a", "\n", "\r", "\u{e9}", " ", "\u{2028}"];

fn conv_case(check: &str, text: &str, off: usize, st: &mut Stats) -> Vec<Violation> {
    let expected = line_of(text, off);
    let actual = match catch(|| get_line_number(off, text)) {
        Ok(a) => a,
        Err(site) => {
            return vec![Violation::new(check, format!("panic:{site}"), "get_line_number panicked", json!({"text": text, "offset": off}))]
        }
    };
    // classification / non-triviality
    let before = &text.as_bytes()[..off];
    let last_line_unterminated = !text[off..].contains('\n');
    let after_multibyte = !text[..off].is_ascii();
    let after_crlf = before.windows(2).any(|w| w == b"\r\n");
    if last_line_unterminated {
        st.count("offset_on_last_unterminated_line");
    }
    if after_multibyte {
        st.count("offset_after_multibyte_char");
    }
    if after_crlf {
        st.count("offset_after_crlf");
    }
    if last_line_unterminated || after_multibyte || after_crlf {
        st.nontrivial(&(text, off));
    }
    if actual != expected {
        let class = if last_line_unterminated { "last-line-unterminated" } else if after_multibyte { "after-multibyte" } else if after_crlf { "after-crlf" } else { "plain" };
        return vec![Violation::new(
            check,
            format!("line-conversion:{class}"),
            format!("get_line_number({off}, text) = {actual}, but {} line feeds precede the offset (expected line {expected})", expected - 1),
            json!({"text": text, "offset": off, "expected": expected, "actual": actual}),
        )];
    }
    vec![]
}

fn token_starts(text: &str) -> Vec<usize> {
    text.char_indices().filter(|(_, c)| !c.is_whitespace()).map(|(i, _)| i).collect()
}

fn nth_string(mut i: u64, len: usize) -> String {
    let mut s = String::new();
    for _ in 0..len {
        s.push_str(ALPHA[(i % 6) as usize]);
        i /= 6;
    }
    s
}

/// end-to-end case on one concrete text
pub fn e2e_text(check: &str, text: &str, st: &mut Stats) -> Vec<Violation> {
    let mut out = Vec::new();
    let su = match crate::parse(text) {
        Some(su) => su,
        None => {
            st.count("discarded_not_parseable");
            return out;
        }
    };
    for p in patterns::all() {
        st.evaluations += 1;
        let locs = match catch(|| (p.detect)(su.clone())) {
            Ok(l) => l,
            Err(_) => {
                st.count("detector_panicked_(C04_domain)");
                continue;
            }
        };
        let expected: BTreeSet<i32> = locs.iter().map(|l| line_of(text, l.start())).collect();
        let actual = match catch(|| p.analyze(text, 0)) {
            Ok(a) => a,
            Err(_) => {
                st.count("detector_panicked_(C04_domain)");
                continue;
            }
        };
        if !expected.is_empty() {
            let multi_line = locs.iter().any(|l| text[l.start()..l.end().min(text.len())].contains('\n'));
            let last_line = locs.iter().any(|l| !text[l.start()..].contains('\n'));
            if multi_line {
                st.count("finding_spans_several_lines");
            }
            if last_line {
                st.count("finding_on_last_unterminated_line");
            }
            if multi_line || last_line || !text.is_ascii() || text.contains("\r\n") {
                st.nontrivial(&(text, p.name));
            }
        }
        if actual != expected {
            let last_line = locs.iter().any(|l| !text[l.start()..].contains('\n'));
            let class = if last_line { "last-line-unterminated" } else { "other" };
            out.push(Violation::new(
                check,
                format!("e2e-lines:{class}"),
                format!("{}: analyze_for_* reports lines {:?} but the flagged constructs begin on lines {:?}", p.name, actual, expected),
                json!({"text": text, "pattern": p.name, "expected": expected, "actual": actual}),
            ));
            return out;
        }
    }
    out
}

fn e2e_case(tape: &[u8], cfg: &program::GenCfg, st: &mut Stats) -> Vec<Violation> {
    let mut t = Tape::new(tape);
    let base = program::gen_program(&mut t, cfg);
    let toks = match layout::tokenize(&base) {
        Some(t) => t,
        None => {
            st.count("discarded_not_lexable");
            return vec![];
        }
    };
    if crate::parse(&base).is_none() {
        st.count("generator_rejected_by_parser");
        return vec![];
    }
    let mut texts = vec![
        layout::fixed_layout(&toks, layout::Fixed::OnePerLine),
        layout::fixed_layout(&toks, layout::Fixed::OneLine),
        layout::fixed_layout(&toks, layout::Fixed::OnePerLineNoFinalNewline),
        layout::fixed_layout(&toks, layout::Fixed::Crlf),
    ];
    for _ in 0..2 {
        let (txt, _, info) = layout::random_layout(&toks, &mut t);
        if info.comments > 0 {
            st.count("layouts_with_comments");
        }
        if info.multibyte > 0 {
            st.count("layouts_with_multibyte");
        }
        if !info.final_newline {
            st.count("layouts_without_final_newline");
        }
        texts.push(txt);
    }
    let mut out = Vec::new();
    for txt in &texts {
        if !layout::same_tokens(txt, &toks) {
            st.count("layout_selfcheck_failed");
            continue;
        }
        st.count("layouts");
        out.extend(e2e_text("e2e", txt, st));
        if !out.is_empty() {
            break;
        }
        // which construct's first byte: the reported line must be the line on which a
        // (canonical or undecided) instance of the detector's pattern *begins* (DESIGN section 8,
        // "reports at"); in multi-line layouts this pins the location each detector chooses
        for group in ["C05", "C06", "C07", "C08"] {
            let mut scratch = Stats::default();
            let vs = crate::props::detectors::check_text("e2e-construct-start", group, txt, &mut scratch);
            st.evaluations += scratch.evaluations;
            for mut v in vs {
                let pat = v.case.get("pattern").and_then(|p| p.as_str()).unwrap_or("").to_string();
                v.sig = format!("construct-start-line:{pat}");
                v.what = format!("reported line is not the line on which the flagged construct begins: {}", v.what);
                out.push(v);
            }
            if !out.is_empty() {
                break;
            }
        }
        if !out.is_empty() {
            break;
        }
    }
    st.sample(2, || json!({"layout_one_line": texts[1].chars().take(600).collect::<String>(), "random_layout": texts[4].chars().take(600).collect::<String>()}));
    out
}

pub fn replay(_env: &Env, check: &str, case: &Value, st: &mut Stats) -> Vec<Violation> {
    let text = case.get("text").and_then(|t| t.as_str()).unwrap_or("");
    if let Some(off) = case.get("offset").and_then(|o| o.as_u64()) {
        if (off as usize) <= text.len() && text.is_char_boundary(off as usize) {
            return conv_case(check, text, off as usize, st);
        }
        return vec![];
    }
    if check == "e2e-construct-start" {
        let mut out = Vec::new();
        for group in ["C05", "C06", "C07", "C08"] {
            for mut v in crate::props::detectors::check_text(check, group, text, st) {
                let pat = v.case.get("pattern").and_then(|p| p.as_str()).unwrap_or("").to_string();
                v.sig = format!("construct-start-line:{pat}");
                out.push(v);
            }
        }
        return out;
    }
    e2e_text(check, text, st)
}

pub fn run(env: &Env) -> i32 {
    let mut st = Stats::default();
    for (name, check, case) in regression_cases(env) {
        st.count("regressions_replayed");
        let vs = replay(env, &check, &case, &mut st);
        let vs = filter_known(env, &mut st, vs);
        if !vs.is_empty() {
            eprintln!("regression {name} fails");
        }
        st.violations.extend(vs);
    }
    // (a.i) bounded-exhaustive: all strings of length <= 7 over {a, LF, CR, e-acute, blank}
    let maxlen = env.tier.n(6, 8) as usize;
    let mut total: u64 = 0;
    for len in 0..=maxlen {
        total += 6u64.pow(len as u32);
    }
    let mut starts = Vec::new();
    let mut acc = 0u64;
    for len in 0..=maxlen {
        starts.push(acc);
        acc += 6u64.pow(len as u32);
    }
    enum_stream(env, &mut st, total, |i, s| {
        let len = (0..=maxlen).rev().find(|l| starts[*l] <= i).unwrap();
        let text = nth_string(i - starts[len], len);
        s.count("exhaustive_strings");
        let mut out = Vec::new();
        for off in token_starts(&text) {
            s.evaluations += 1;
            out.extend(conv_case("conversion-exhaustive", &text, off, s));
            if !out.is_empty() {
                break;
            }
        }
        if i % 20011 == 0 {
            s.sample(2, || json!({"text": text, "offsets": token_starts(&text)}));
        }
        out
    });
    // (a.ii) random unicode texts with mixed newline classes
    let mk = || {
    let piece = proptest::prop_oneof![
        4 => proptest::string::string_regex("[a-zA-Z0-9_(){};=+*/<>. ]{1,12}").unwrap(),
        2 => proptest::strategy::Just("\n".to_string()),
        1 => proptest::strategy::Just("\r\n".to_string()),
        1 => proptest::strategy::Just("\r".to_string()),
        1 => proptest::strategy::Just("\n\n\n".to_string()),
        1 => proptest::string::string_regex("\\PC{1,6}").unwrap(),
        1 => proptest::strategy::Just("\u{1f600}\u{e9}\u{4e16}".to_string()),
        1 => proptest::strategy::Just("\u{2028}".to_string()),
        1 => proptest::strategy::Just("\u{2029}x\u{85}y\u{0b}z\u{0c}".to_string()),
    ];
    proptest::collection::vec(piece, 0..120)
    };
    value_stream(env, &mut st, "conversion-random", env.tier.n(20_000, 300_000), mk, |pieces: &Vec<String>, s| {
        let text: String = pieces.concat();
        let mut out = Vec::new();
        let starts = token_starts(&text);
        // every token start for short texts, a spread otherwise
        let step = (starts.len() / 64).max(1);
        for off in starts.iter().step_by(step).chain(starts.last()) {
            s.evaluations += 1;
            out.extend(conv_case("conversion-random", &text, *off, s));
            if !out.is_empty() {
                break;
            }
        }
        out
    });
    // (a.iii) long runs of one symbol around block and counter boundaries (255/256, 511/512, 4 KiB, 64 KiB),
    // at several alignments: anything that counts per block or in a narrow integer goes wrong only here
    {
        let syms = ["\n", "\r\n", "a", "\u{e9}", " ", "\n\n \n"];
        let lens = [255usize, 256, 257, 511, 512, 513, 767, 1023, 1024, 4095, 4096, 65535, 65536, 70001];
        let pres = [0usize, 1, 2, 3, 7, 100, 255, 256, 257];
        let n = (syms.len() * lens.len() * pres.len()) as u64;
        enum_stream(env, &mut st, n, |i, s| {
            let i = i as usize;
            let sym = syms[i % syms.len()];
            let len = lens[(i / syms.len()) % lens.len()];
            let pre = pres[i / (syms.len() * lens.len())];
            let sym2 = syms[(i + 1 + i / 7) % syms.len()];
            let mut text = "x".repeat(pre);
            text.push_str(&sym.repeat(len));
            let t_at = text.len();
            text.push_str("T\n");
            text.push_str(&sym2.repeat(len / 2 + 1));
            let u_at = text.len();
            text.push('U');
            s.count("long_run_texts");
            let mut out = Vec::new();
            for off in [t_at, u_at] {
                s.evaluations += 1;
                out.extend(conv_case("conversion-long-runs", &text, off, s));
                if !out.is_empty() {
                    break;
                }
            }
            out
        });
    }
    // (b) end to end
    let cfg = program::GenCfg { undecided: true, plant: 110, newline_items: false, ..Default::default() };
    tape_stream(env, &mut st, "e2e", env.tier.n(3000, 30_000), 1200, |tape, s| e2e_case(tape, &cfg, s));

    let meta = Meta {
        rule: "(a) (text, offset) pairs: all strings of length <= 6 (quick) / 8 (thorough) over {a, LF, CR, e-acute (2 bytes), blank, U+2028 LINE SEPARATOR (3 bytes, not a line feed)} with every offset at which a non-blank character starts, plus random Unicode texts with LF / CRLF / lone CR / blank runs, plus texts with runs of 255 .. 70 001 equal symbols (LF, CRLF, letters, blanks) at nine alignments; (b) (laid-out program, pattern) pairs for 4 fixed and 2 random layouts and all 30 patterns; non-trivial = offset or finding on the last line of a text without final newline, after a multi-byte character, after a CRLF, or a finding spanning several lines; distinct by (text, offset) resp. (text, pattern)".into(),
        assumptions: vec![
            "line model: line(text, off) = 1 + number of LF bytes before off (from the property statement)".into(),
            "which location a detector must choose is enforced by C05-C08 in the one-token-per-line layout; here the loc-set -> line-set step is checked".into(),
        ],
        extra: json!({"exhaustive_subdomains": [format!("all {} strings of length <= {} over a 6-symbol alphabet, every non-blank offset", total, maxlen)]}),
        floors: vec![
            ("offsets on a last unterminated line".into(), st.counters.get("offset_on_last_unterminated_line").copied().unwrap_or(0), 1000),
            ("offsets after a multi-byte character".into(), st.counters.get("offset_after_multibyte_char").copied().unwrap_or(0), 1000),
            ("offsets after CRLF".into(), st.counters.get("offset_after_crlf").copied().unwrap_or(0), 1000),
            ("end-to-end layouts run".into(), st.counters.get("layouts").copied().unwrap_or(0), 1000),
            ("findings on a last unterminated line (end to end)".into(), st.counters.get("finding_on_last_unterminated_line").copied().unwrap_or(0), 100),
        ],
    };
    finish(env, st, meta)
}
