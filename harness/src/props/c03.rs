//! C03 — directory analysis is the exact union of the per-file results.
//! C16 — only Solidity sources are analysed; test files and other files are inert.

use crate::engine::*;
use crate::gen::tree::{self, Entry, Kind, Scratch, TreeCfg};
use crate::patterns::{self, Pat, P};
use crate::props::e2e;
use crate::tape::Tape;
use serde_json::{json, Value};
use solstat::analyzer::{optimizations, qa, vulnerabilities};
use std::collections::{BTreeMap, BTreeSet};
use std::path::Path;

pub type Multi = BTreeMap<(String, String, Vec<i32>), usize>;

/// analyze_dir for all three categories as one multiset of (pattern, file, line set).
pub fn analyze_dir_all(root: &Path, pats: &[P]) -> Result<Multi, String> {
    let dir = root.to_str().unwrap().to_string();
    let opts: Vec<_> = pats.iter().filter_map(|p| if let Pat::Opt(o) = p.pat { Some(o) } else { None }).collect();
    let vuls: Vec<_> = pats.iter().filter_map(|p| if let Pat::Vuln(o) = p.pat { Some(o) } else { None }).collect();
    let qas: Vec<_> = pats.iter().filter_map(|p| if let Pat::Qa(o) = p.pat { Some(o) } else { None }).collect();
    let name_of = |pat: Pat| pats.iter().find(|p| p.pat == pat).map(|p| p.name.to_string()).unwrap_or_else(|| format!("unselected:{:?}", pat));
    let mut m: Multi = BTreeMap::new();
    let o = catch(|| optimizations::analyze_dir(&dir, opts))?;
    for (k, v) in o {
        for (f, l) in v {
            *m.entry((name_of(Pat::Opt(k)), f, l.into_iter().collect())).or_insert(0) += 1;
        }
    }
    let v = catch(|| vulnerabilities::analyze_dir(&dir, vuls))?;
    for (k, v) in v {
        for (f, l) in v {
            *m.entry((name_of(Pat::Vuln(k)), f, l.into_iter().collect())).or_insert(0) += 1;
        }
    }
    let q = catch(|| qa::analyze_dir(&dir, qas))?;
    for (k, v) in q {
        for (f, l) in v {
            *m.entry((name_of(Pat::Qa(k)), f, l.into_iter().collect())).or_insert(0) += 1;
        }
    }
    Ok(m)
}

/// Reference: per-file analysis of every eligible file of the spec.
pub fn expected_multi(spec: &[Entry], pats: &[P]) -> Result<Multi, String> {
    let mut files = Vec::new();
    tree::eligible_files(spec, "", &mut files);
    let mut m: Multi = BTreeMap::new();
    for (_, name, text) in &files {
        for p in pats {
            let lines = catch(|| p.analyze(text, 0))?;
            if !lines.is_empty() {
                *m.entry((p.name.to_string(), name.clone(), lines.into_iter().collect())).or_insert(0) += 1;
            }
        }
    }
    Ok(m)
}

fn select_patterns(t: &mut Tape) -> Vec<P> {
    let all = patterns::all();
    if t.chance(128) {
        return all;
    }
    let mut v: Vec<P> = all.into_iter().filter(|_| t.chance(150)).collect();
    let perm = t.permutation(v.len());
    v = perm.into_iter().map(|i| v[i]).collect();
    v
}

/// Which patterns have findings in file `text`.
fn firing(text: &str, pats: &[P]) -> BTreeSet<&'static str> {
    pats.iter().filter(|p| catch(|| p.analyze(text, 0)).map(|l| !l.is_empty()).unwrap_or(false)).map(|p| p.name).collect()
}

/// Observed-order classification: a pattern has findings in a file listed before
/// a sub-directory and in a file beneath that sub-directory.
fn collision_classes(dir: &Path, spec: &[Entry], pats: &[P], st: &mut Stats) -> (bool, usize) {
    fn firing_beneath(entries: &[Entry], pats: &[P]) -> BTreeSet<&'static str> {
        let mut s = BTreeSet::new();
        for e in entries {
            match &e.kind {
                Kind::File(b) => {
                    if tree::eligible(&e.name) {
                        s.extend(firing(&String::from_utf8_lossy(b), pats));
                    }
                }
                Kind::Dir(c) | Kind::Link(c) => s.extend(firing_beneath(c, pats)),
            }
        }
        s
    }
    let mut collision = false;
    let mut levels_with_findings = 0usize;
    let listed: Vec<String> = std::fs::read_dir(dir).map(|rd| rd.filter_map(|e| e.ok()).map(|e| e.file_name().to_string_lossy().to_string()).collect()).unwrap_or_default();
    let mut seen_before: BTreeSet<&'static str> = BTreeSet::new();
    let mut here = false;
    for name in &listed {
        if let Some(e) = spec.iter().find(|e| &e.name == name) {
            match &e.kind {
                Kind::File(b) => {
                    if tree::eligible(&e.name) {
                        let f = firing(&String::from_utf8_lossy(b), pats);
                        if !f.is_empty() {
                            here = true;
                        }
                        seen_before.extend(f);
                    }
                }
                Kind::Dir(c) | Kind::Link(c) => {
                    let beneath = firing_beneath(c, pats);
                    if beneath.intersection(&seen_before).next().is_some() {
                        collision = true;
                        st.count("file_listed_before_subdirectory_with_same_pattern");
                    } else if !beneath.is_empty() {
                        st.count("subdirectory_listed_before_files");
                    }
                    let (c2, l2) = collision_classes(&dir.join(name), c, pats, st);
                    collision |= c2;
                    levels_with_findings = levels_with_findings.max(l2);
                }
            }
        }
    }
    (collision, levels_with_findings + if here { 1 } else { 0 })
}

fn diff(expected: &Multi, actual: &Multi) -> Option<(String, String)> {
    diff2(expected, expected, actual)
}

/// `required` ⊆ actual ⊆ `allowed` (as multisets)
fn diff2(required: &Multi, allowed: &Multi, actual: &Multi) -> Option<(String, String)> {
    let expected = allowed;
    if required == actual || allowed == actual {
        return None;
    }
    for (k, n) in required {
        let a = actual.get(k).copied().unwrap_or(0);
        if a < *n {
            return Some(("finding-dropped".into(), format!("(pattern {}, file {}, lines {:?}) appears {} time(s) in the directory result, expected {}", k.0, k.1, k.2, a, n)));
        }
    }
    let mut any = false;
    for (k, a) in actual {
        any |= expected.get(k).copied().unwrap_or(0) < *a;
    }
    if !any {
        return None;
    }
    for (k, a) in actual {
        let n = expected.get(k).copied().unwrap_or(0);
        if *a > n {
            let sig = if n == 0 { "finding-invented" } else { "finding-duplicated" };
            return Some((sig.into(), format!("(pattern {}, file {}, lines {:?}) appears {} time(s) in the directory result, expected {}", k.0, k.1, k.2, a, n)));
        }
    }
    Some(("differs".into(), "results differ".into()))
}

pub fn c03_spec(check: &str, spec: &[Entry], pats: &[P], st: &mut Stats) -> Vec<Violation> {
    let case = json!({"tree": tree::to_json(spec), "patterns": pats.iter().map(|p| p.name).collect::<Vec<_>>()});
    let expected = match expected_multi(spec, pats) {
        Ok(e) => e,
        Err(_) => {
            st.count("discarded_detector_panic_(C04_domain)");
            return vec![];
        }
    };
    // files reached only through a symbolic link to a directory may be analysed (they are today) or
    // not: the statement does not say whether they are "beneath" the directory
    let required = match expected_multi(&tree::strip_links(spec), pats) {
        Ok(e) => e,
        Err(_) => return vec![],
    };
    let sc = Scratch::new("c03");
    let root = sc.path.join("tree");
    std::fs::create_dir_all(&root).unwrap();
    tree::materialize_with_links(spec, &root, &sc.path.join("links"));
    if tree::count(spec, &|e| matches!(e.kind, Kind::Link(_))) > 0 {
        st.count("trees_with_symlinked_directory");
    }
    let (collision, levels) = collision_classes(&root, spec, pats, st);
    if collision || levels >= 3 {
        st.nontrivial(&format!("{:?}", case));
    }
    st.add("files_created_as_hard_links", tree::HARD_LINKS.swap(0, std::sync::atomic::Ordering::Relaxed));
    st.mark("tree_depths", &format!("{}", tree::depth(spec)));
    let actual = match analyze_dir_all(&root, pats) {
        Ok(a) => a,
        Err(site) => return vec![Violation::new(check, format!("panic:{site}"), "analyze_dir panicked on a tree whose eligible files all parse", case)],
    };
    if actual == expected && expected != required {
        st.count("trees_where_symlinked_directories_were_followed");
    }
    // whether a symbolically linked directory counts as "beneath" is one decision, not one per
    // category or per pattern: a file reached only through such a link (and whose name is unique in
    // the tree) has either all of its findings in the result or none
    if expected != required {
        let mut all_files = Vec::new();
        tree::eligible_files(spec, "", &mut all_files);
        let mut direct_files = Vec::new();
        tree::eligible_files(&tree::strip_links(spec), "", &mut direct_files);
        let direct: BTreeSet<&String> = direct_files.iter().map(|(rel, _, _)| rel).collect();
        for (rel, name, _) in all_files.iter().filter(|(rel, _, _)| !direct.contains(rel)) {
            if all_files.iter().filter(|(_, n, _)| n == name).count() != 1 {
                continue;
            }
            let of_file = |m: &Multi| -> Multi { m.iter().filter(|(k, _)| &k.1 == name).map(|(k, v)| (k.clone(), *v)).collect() };
            let (e, a) = (of_file(&expected), of_file(&actual));
            if !a.is_empty() && a != e {
                st.count("link_only_files_checked");
                let missing: Vec<&String> = e.keys().filter(|k| !a.contains_key(*k)).map(|k| &k.0).take(4).collect();
                return vec![Violation::new(check, "symlinked-directory:followed-for-some-patterns-only", format!("{rel} is reached only through a symbolic link to a directory; the result holds some of its findings but not those of {:?}", missing), case)];
            }
            st.count("link_only_files_checked");
        }
    }
    if let Some((sig, what)) = diff2(&required, &expected, &actual) {
        let cls = if collision { "after-earlier-file" } else { "plain" };
        return vec![Violation::new(check, format!("{sig}:{cls}"), what, case)];
    }
    vec![]
}

pub fn c03_case(tape: &[u8], st: &mut Stats) -> Vec<Violation> {
    let mut t = Tape::new(tape);
    let mut skipped = 0;
    let spec = tree::gen_tree(&mut t, &TreeCfg { inert: 40, ..Default::default() }, &mut skipped);
    st.add("undecided_names_skipped", skipped);
    let pats = select_patterns(&mut t);
    st.sample(2, || json!({"tree": summarize(&spec), "patterns": pats.len()}));
    c03_spec("trees", &spec, &pats, st)
}

pub fn summarize(spec: &[Entry]) -> Value {
    Value::Array(
        spec.iter()
            .map(|e| match &e.kind {
                Kind::File(b) => json!({"file": e.name, "class": e.class, "bytes": b.len()}),
                Kind::Dir(c) => json!({"dir": e.name, "entries": summarize(c)}),
                Kind::Link(c) => json!({"symlink_to_dir": e.name, "entries": summarize(c)}),
            })
            .collect(),
    )
}

// ------------------------------------------------------------------------------------- C16

pub fn c16_spec(check: &str, spec: &[Entry], st: &mut Stats) -> Vec<Violation> {
    let pats = patterns::all();
    let case = json!({"tree": tree::to_json(spec)});
    let expected = match expected_multi(spec, &pats) {
        Ok(e) => e,
        Err(_) => {
            st.count("discarded_detector_panic_(C04_domain)");
            return vec![];
        }
    };
    // classification
    let n_test_unparseable = tree::count(spec, &|e| e.class == "test-file" && matches!(&e.kind, Kind::File(b) if crate::parse(&String::from_utf8_lossy(b)).is_none()));
    let n_upper = tree::count(spec, &|e| e.name.ends_with(".SOL") || e.name.ends_with(".Sol"));
    let n_mid = tree::count(spec, &|e| e.name.contains(".sol") && !e.name.ends_with(".sol") && matches!(e.kind, Kind::File(_)));
    let n_binary = tree::count(spec, &|e| matches!(&e.kind, Kind::File(b) if std::str::from_utf8(b).is_err()));
    let n_inert_valid = tree::count(spec, &|e| !tree::eligible(&e.name) && matches!(&e.kind, Kind::File(b) if !b.is_empty() && crate::parse(&String::from_utf8_lossy(b)).is_some() && std::str::from_utf8(b).is_ok()));
    if n_test_unparseable > 0 {
        st.count("trees_with_unparseable_test_file");
    }
    if n_upper > 0 {
        st.count("trees_with_uppercase_extension");
    }
    if n_mid > 0 {
        st.count("trees_with_sol_in_the_middle_of_a_name");
    }
    if n_binary > 0 {
        st.count("trees_with_invalid_utf8_file");
    }
    if n_inert_valid > 0 {
        st.count("trees_with_inert_file_holding_a_valid_program");
    }
    let classes = [n_test_unparseable, n_upper, n_mid, n_binary, n_inert_valid].iter().filter(|n| **n > 0).count();
    if classes >= 2 && tree::depth(spec) >= 1 {
        st.nontrivial(&format!("{:?}", case));
    }
    let sc = Scratch::new("c16");
    let full = sc.path.join("full");
    let stripped = sc.path.join("stripped");
    std::fs::create_dir_all(&full).unwrap();
    std::fs::create_dir_all(&stripped).unwrap();
    tree::materialize(spec, &full);
    tree::materialize(&tree::strip_inert(spec), &stripped);
    let a_full = match analyze_dir_all(&full, &pats) {
        Ok(a) => a,
        Err(site) => return vec![Violation::new(check, format!("inert-file-makes-run-fail:{site}"), format!("analyze_dir fails (panic at {site}) on a tree whose eligible files all parse"), case)],
    };
    let a_stripped = match analyze_dir_all(&stripped, &pats) {
        Ok(a) => a,
        Err(site) => return vec![Violation::new(check, format!("panic:{site}"), "analyze_dir panicked on the stripped tree", case)],
    };
    if a_full != a_stripped {
        let (sig, what) = diff(&a_stripped, &a_full).unwrap();
        return vec![Violation::new(check, format!("inert-file-has-influence:{sig}"), format!("result with inert files present differs from the result without them: {what}"), case)];
    }
    if let Some((sig, what)) = diff(&expected, &a_full) {
        return vec![Violation::new(check, format!("eligibility:{sig}"), format!("result differs from the union over eligible files (name ends in .sol and is not *.t.sol): {what}"), case)];
    }
    vec![]
}

pub fn c16_case(tape: &[u8], st: &mut Stats) -> Vec<Violation> {
    let mut t = Tape::new(tape);
    let mut skipped = 0;
    let spec = tree::gen_tree(&mut t, &TreeCfg { inert: 140, max_entries: 8, ..Default::default() }, &mut skipped);
    st.add("undecided_names_skipped", skipped);
    st.sample(2, || json!({"tree": summarize(&spec)}));
    c16_spec("trees", &spec, st)
}

pub fn replay(env: &Env, check: &str, case: &Value, st: &mut Stats) -> Vec<Violation> {
    let spec = tree::from_json(case.get("tree").unwrap_or(&Value::Null));
    if env.prop == "C16" {
        return c16_spec(check, &spec, st);
    }
    let pats: Vec<P> = match case.get("patterns").and_then(|p| p.as_array()) {
        Some(a) => a.iter().filter_map(|n| n.as_str().and_then(patterns::by_name)).collect(),
        None => patterns::all(),
    };
    c03_spec(check, &spec, &pats, st)
}

pub fn run_c03(env: &Env) -> i32 {
    let mut st = Stats::default();
    for (name, check, case) in regression_cases(env) {
        st.count("regressions_replayed");
        let vs = replay(env, &check, &case, &mut st);
        let vs = filter_known(env, &mut st, vs);
        if !vs.is_empty() {
            eprintln!("regression {name} fails");
        }
        st.violations.extend(vs);
    }
    tape_stream(env, &mut st, "trees", env.tier.n(5000, 100_000), 700, |tape, s| c03_case(tape, s));
    // fixed deep and wide shapes, with all patterns and with two sub-selections
    let shaped = tree::shaped_specs(false);
    enum_stream(env, &mut st, shaped.len() as u64 * 3, |i, s| {
        let (name, spec) = &shaped[(i / 3) as usize];
        let all = patterns::all();
        let pats: Vec<P> = match i % 3 {
            0 => all,
            1 => all.into_iter().rev().step_by(2).collect(),
            _ => all.into_iter().skip(1).step_by(3).collect(),
        };
        s.count("shaped_trees");
        s.mark("shaped_tree_names", name);
        c03_spec("shaped-trees", spec, &pats, s)
    });
    e2e::report_roundtrip(env, &mut st, env.tier.n(100, 2000));
    let trees = st.evaluations.max(1);
    let coll = st.counters.get("file_listed_before_subdirectory_with_same_pattern").copied().unwrap_or(0);
    let meta = Meta {
        rule: "cases = (directory tree with creation order, selected pattern subset and order); trees hold eligible files from a pool in which most patterns fire, inert files and sub-directories up to depth 3; oracle = multiset of (pattern, file, line set) from the harness' own per-file analysis of the spec; non-trivial = some pattern has findings in a file that the file system lists before a sub-directory and in a file beneath that sub-directory (observed listing order), or findings at three nesting levels; plus binary runs compared through the report parser".into(),
        assumptions: vec![
            "per-file analysis (analyze_for_*) is the reference the property names".into(),
            "eligible files always hold parser-accepted programs".into(),
            "scratch trees live on tmpfs (/dev/shm), where the listing order is the reverse creation order; the observed order is only used for classification".into(),
        ],
        extra: json!({}),
        floors: vec![("collisions (file listed before a sub-directory sharing a pattern) per 100 trees".into(), coll * 100 / trees, 5)],
    };
    finish(env, st, meta)
}

pub fn run_c16(env: &Env) -> i32 {
    let mut st = Stats::default();
    for (name, check, case) in regression_cases(env) {
        st.count("regressions_replayed");
        let vs = replay(env, &check, &case, &mut st);
        let vs = filter_known(env, &mut st, vs);
        if !vs.is_empty() {
            eprintln!("regression {name} fails");
        }
        st.violations.extend(vs);
    }
    tape_stream(env, &mut st, "trees", env.tier.n(5000, 100_000), 700, |tape, s| c16_case(tape, s));
    // fixed deep and wide shapes with inert files at every level
    let shaped = tree::shaped_specs(true);
    enum_stream(env, &mut st, shaped.len() as u64, |i, s| {
        let (name, spec) = &shaped[i as usize];
        s.count("shaped_trees");
        s.mark("shaped_tree_names", name);
        c16_spec("shaped-trees", spec, s)
    });
    // binary sample: exit status 0 on trees full of inert files
    if env.solstat_bin().exists() {
        tape_stream(env, &mut st, "binary", env.tier.n(100, 2000), 700, |tape, s| {
            let mut t = Tape::new(tape);
            let mut skipped = 0;
            let spec = tree::gen_tree(&mut t, &TreeCfg { inert: 140, max_entries: 8, ..Default::default() }, &mut skipped);
            let sc = Scratch::new("c16b");
            let root = sc.path.join("tree");
            let cwd = sc.path.join("cwd");
            std::fs::create_dir_all(&root).unwrap();
            std::fs::create_dir_all(&cwd).unwrap();
            tree::materialize(&spec, &root);
            let out = e2e::run_solstat(env, &cwd, &["--path", root.to_str().unwrap()]);
            s.count("binary_runs");
            if out.code != Some(0) {
                return vec![Violation::new("binary", "binary:run-fails", format!("solstat exits with {:?} on a tree whose eligible files all parse: {}", out.code, out.stderr), json!({"tree": tree::to_json(&spec)}))];
            }
            vec![]
        });
    } else {
        st.harness_errors.push("solstat binary not built".into());
    }
    let meta = Meta {
        rule: "cases = directory trees mixing eligible files with inert ones of every name class (*.t.sol in any case, .SOL/.Sol, .sol in the middle, no extension, report-like names) and content class (unparseable text, invalid UTF-8, empty, a valid program with findings) at every depth; oracle = analyze_dir(tree) == analyze_dir(tree without inert files) == union over eligible files by the eligibility predicate, and no call fails; non-trivial = at least two inert classes present and at least one sub-directory".into(),
        assumptions: vec![
            "eligibility predicate from the property statement: name ends with '.sol' and its lower-cased form does not end with '.t.sol'".into(),
            "names that end in '.sol', are not '*.t.sol' but contain '.t.sol' elsewhere are not generated (the statement does not decide them); the number skipped is reported".into(),
        ],
        extra: json!({}),
        floors: vec![
            ("trees with an unparseable test file".into(), st.counters.get("trees_with_unparseable_test_file").copied().unwrap_or(0), 30),
            ("trees with an invalid UTF-8 file".into(), st.counters.get("trees_with_invalid_utf8_file").copied().unwrap_or(0), 30),
            ("trees with an upper-case extension".into(), st.counters.get("trees_with_uppercase_extension").copied().unwrap_or(0), 30),
            ("trees with an inert file holding a valid program".into(), st.counters.get("trees_with_inert_file_holding_a_valid_program").copied().unwrap_or(0), 30),
        ],
    };
    finish(env, st, meta)
}
