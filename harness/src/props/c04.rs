//! C04 — analysis never aborts on a file the parser accepts.
//!
//! Oracle: each of the 30 `analyze_for_*` calls returns normally (under
//! `catch_unwind`; the panic hook records the site).  Run in two build profiles
//! (with and without arithmetic overflow checks).

use crate::engine::*;
use crate::gen::program;
use crate::patterns;
use crate::refmodel::walk;
use crate::tape::Tape;
use serde_json::{json, Value};

/// Feature-directed texts (DESIGN 5 C04 (i)).
pub fn feature_texts() -> Vec<(String, String)> {
    let mut v: Vec<(String, String)> = Vec::new();
    let mut add = |class: &str, text: String| v.push((class.to_string(), text));
    add("empty-file", "".into());
    add("only-comment", "// nothing\n".into());
    add("no-pragma", "contract C { function f ( ) public { require ( a , \"m\" ) ; x = a . add ( b ) ; } }".into());
    add("no-pragma", "using SafeMath for uint256 ; contract C { uint256 s ; function f ( uint256 a ) public { s = a . add ( 1 ) ; require ( a > 0 , \"a string that is at least thirty-two bytes long\" ) ; } }".into());
    add("only-other-pragmas", "pragma abicoder v2 ; pragma experimental ABIEncoderV2 ; contract C { function f ( ) public { require ( a , \"m\" ) ; } }".into());
    add("pragma-after-contract", "contract C { } pragma solidity 0.8.4 ;".into());
    add("pragma-odd-version", "pragma solidity 0.8 ; contract C { function f ( ) public { require ( a , \"m\" ) ; } }".into());
    add("pragma-odd-version", "pragma solidity * ; contract C { }".into());
    add("pragma-odd-version", "pragma solidity >=0.5.0 <0.9.0 ; contract C { function f ( ) public { require ( a , \"m\" ) ; } }".into());
    add("pragma-huge-version", "pragma solidity 0.99999999999.0 ; contract C { function f ( ) public { require ( a , \"m\" ) ; } }".into());
    add("pragma-huge-version", "pragma solidity 4294967296.0.0 ; using SafeMath for uint ; contract C { function f ( ) public { a . add ( b ) ; } }".into());
    add("pragma-huge-version", "pragma solidity 0.8.99999999999999999999 ; contract C { }".into());
    add("pragma-odd-version", "pragma solidity 0.8..4 ; contract C { }".into());
    add("free-function", "pragma solidity 0.8.0 ; function g ( ) pure returns ( uint256 ) { return 1 ; }".into());
    add("free-function", "pragma solidity 0.8.0 ; function g ( ) { } contract C { constructor ( ) { } }".into());
    add("free-function", "pragma solidity 0.8.0 ; contract C { constructor ( ) { } function f ( ) public { } } function _g ( uint256 a ) pure { }".into());
    add("free-function", "function ( ) { }".into());
    for lit in [
        "4294967295", "4294967296", "18446744073709551615", "18446744073709551616",
        "340282366920938463463374607431768211456",
        "115792089237316195423570985008687907853269984665640564039457584007913129639936",
        "1157920892373161954235709850086879078532699846656405640394575840079131296399360000000000",
        "1e77", "5e-3", "1_000e1_0", "1e4294967296", "2e-4294967296", "00", "0e0", "1_0", "1e-0",
    ] {
        add("big-literal", format!("pragma solidity 0.8.0 ; contract C {{ function f ( uint256 a ) public {{ x = a * {lit} ; y = {lit} / a ; z = a / {lit} * 2 ; arr [ {lit} ] = arr [ {lit} ] + 1 ; }} }}"));
        add("big-literal", format!("pragma solidity 0.8.0 ; contract C {{ function f ( address a ) public {{ if ( a == address ( {lit} ) ) {{ }} }} }}"));
    }
    // boundary values for the two numeric fields of a literal (integer part, exponent): +-2^k, +-(2^k +- 1)
    {
        let mut bounds: Vec<String> = Vec::new();
        for k in [7u32, 8, 15, 16, 31, 32, 63, 64, 127, 128] {
            let p: u128 = if k == 128 { u128::MAX } else { 1u128 << k };
            for v in [p.wrapping_sub(1), p, p.wrapping_add(1)] {
                if v != 0 {
                    bounds.push(v.to_string());
                }
            }
        }
        bounds.push("340282366920938463463374607431768211456".into()); // 2^128
        bounds.push("115792089237316195423570985008687907853269984665640564039457584007913129639935".into()); // 2^256 - 1
        bounds.sort();
        bounds.dedup();
        for b in &bounds {
            for lit in [format!("1e{b}"), format!("1e-{b}"), format!("{b}e-{b}"), format!("{b}"), format!("{b}e0"), format!("0e{b}")] {
                add("boundary-literal", format!("pragma solidity 0.8.0 ; contract C {{ function f ( uint256 a ) public {{ x = a * {lit} ; y = {lit} / a ; arr [ {lit} ] = arr [ {lit} ] + 1 ; if ( a == address ( {lit} ) ) {{ }} }} }}"));
            }
        }
    }
    // every combination of operand shapes in `L = X op Y` (array-update look-alikes), incl. empty subscripts
    {
        let shapes = ["v [ 0 ]", "v [ ]", "v [ i ]", "m [ 1 ] [ 2 ]", "m [ 1 ] [ ]", "g ( ) [ 0 ]", "v", "( v ) [ 0 ]", "v [ 0 ] [ ]", "v [ 1e3 ]"];
        for l in shapes {
            for x in shapes {
                let mut body = String::new();
                for y in shapes {
                    body.push_str(&format!("{l} = {x} + {y} ; "));
                }
                add("array-update-shapes", format!("pragma solidity 0.8.0 ; contract C {{ function f ( ) public {{ {body} }} }}"));
            }
        }
    }
    for callee in ["address", "payable", "require", "keccak256", "selfdestruct", "suicide", "assert", "revert", "uint256", "bytes", "abi . encode", "x . add", "x . transfer"] {
        add("zero-argument-call", format!("pragma solidity 0.8.4 ; contract C {{ function f ( ) public {{ {callee} ( ) ; if ( a == {callee} ( ) ) {{ }} if ( {callee} ( ) != a ) {{ }} y = {callee} ( ) . balance ; }} }}"));
    }
    add("zero-argument-call", "pragma solidity 0.8.4 ; contract C { function f ( ) public { require ( ) ; require ( \"only a message\" ) ; } }".into());
    add("non-ascii-identifiers", "pragma solidity 0.8.0 ; contract \u{c9}t\u{e9} { uint256 private \u{e9} ; uint256 public _\u{e9} ; function \u{e9}mettre ( ) private { } function _\u{e9}mettre ( uint256 \u{540d} ) public { \u{e9} = \u{540d} ; } function \u{1d4b3} ( string memory \u{3b1} ) external { } }".into());
    add("non-ascii-identifiers", "pragma solidity 0.8.0 ; using SafeMath for uint256 ; contract C { function f ( uint256 \u{e9} ) public { \u{e9} . add ( 1 ) ; \u{e9} . \u{e9} ( ) ; require ( \u{e9} > 0 , \"\u{e9}\u{e9}\u{e9}\u{e9}\u{e9}\u{e9}\u{e9}\u{e9}\u{e9}\u{e9}\u{e9}\u{e9}\u{e9}\u{e9}\u{e9}\u{e9}\u{e9}\" ) ; \u{e9} . transfer ( \u{e9} ) ; } }".into());
    add("empty-contract", "pragma solidity 0.8.0 ; contract C { } interface I { } library L { } abstract contract A { }".into());
    add("empty-struct", "pragma solidity 0.8.0 ; struct S { } contract C { struct T { } }".into());
    add("bodyless", "pragma solidity 0.8.0 ; contract C { function f ( string memory p ) public ; modifier m ; constructor ( ) ; }".into());
    add("unnamed-params", "pragma solidity 0.8.0 ; contract C { function f ( string memory , uint256 ) public { } }".into());
    add("old-style-fallback", "pragma solidity 0.4.0 ; contract C { function ( ) public payable { x = 1 ; } }".into());
    add("array-no-index", "pragma solidity 0.8.0 ; contract C { function f ( ) public { uint256 [ ] memory v ; v [ 0 ] = v [ 0 ] + 1 ; a [ ] = a [ ] + 1 ; } }".into());
    add("string-edge", "pragma solidity 0.8.0 ; contract C { function f ( ) public { require ( a , \"\" ) ; require ( a , unicode\"\u{1f600}\u{1f600}\u{1f600}\u{1f600}\u{1f600}\u{1f600}\u{1f600}\u{1f600}\" ) ; require ( a , hex\"00\" ) ; } }".into());
    for n in [254usize, 255, 256, 257, 600] {
        let mut s = String::from("pragma solidity 0.8.0 ; contract C {\n");
        for i in 0..n {
            s.push_str(&format!("function f{i} ( ) internal {{ }}\n"));
        }
        s.push_str("constructor ( ) { }\n}");
        add("many-functions-before-constructor", s);
    }
    {
        let mut s = String::from("pragma solidity 0.8.0 ; contract C {\n");
        for i in 0..600 {
            s.push_str(&format!("uint8 v{i} ;\n"));
        }
        s.push('}');
        add("wide-contract", s);
    }
    // deep nesting (<= 64)
    for depth in [16usize, 40, 60] {
        let mut e = String::from("a");
        for _ in 0..depth {
            e = format!("( {e} + 1 )");
        }
        add("deep-expression", format!("pragma solidity 0.8.0 ; contract C {{ function f ( ) public {{ x = {e} ; }} }}"));
        let mut s = String::from("x ++ ;");
        for _ in 0..depth / 2 {
            s = format!("if ( a ) {{ {s} }}");
        }
        add("deep-statement", format!("pragma solidity 0.8.0 ; contract C {{ function f ( ) public {{ {s} }} }}"));
    }
    v
}

pub fn check_text(check: &str, text: &str, class: &str, st: &mut Stats) -> Vec<Violation> {
    let mut out = Vec::new();
    let su = match crate::parse(text) {
        Some(su) => su,
        None => {
            st.count("discarded_not_accepted_by_parser");
            return out;
        }
    };
    let items = walk::walk_source_unit(&su);
    let depth = items.iter().map(|i| i.ctx.depth).max().unwrap_or(0);
    if depth > 64 {
        st.count("discarded_deeper_than_64");
        return out;
    }
    st.count("accepted_files");
    st.mark("feature_classes", class);
    if items.len() >= 20 {
        st.nontrivial(text);
    }
    // feature classification from the tree
    let has_pragma = su.0.iter().any(|p| matches!(p, solang_parser::pt::SourceUnitPart::PragmaDirective(..)));
    let has_free_fn = su.0.iter().any(|p| matches!(p, solang_parser::pt::SourceUnitPart::FunctionDefinition(..)));
    if !has_pragma {
        st.count("files_without_pragma");
    }
    if has_free_fn {
        st.count("files_with_free_function");
    }
    drop(items);
    for p in patterns::all() {
        st.evaluations += 1;
        if let Err(site) = catch(|| p.analyze(text, 0)) {
            out.push(Violation::new(
                check,
                format!("panic:{}", site),
                format!("{} aborts on a parser-accepted file (panic at {site})", p.name),
                json!({"text": text, "pattern": p.name, "site": site, "class": class}),
            ));
        }
    }
    out
}

pub fn replay(_env: &Env, check: &str, case: &Value, st: &mut Stats) -> Vec<Violation> {
    let text = case.get("text").and_then(|t| t.as_str()).unwrap_or("");
    check_text(check, text, "replay", st)
}

pub fn run(env: &Env) -> i32 {
    let mut st = Stats::default();
    for (name, check, case) in regression_cases(env) {
        st.count("regressions_replayed");
        let vs = replay(env, &check, &case, &mut st);
        let vs = filter_known(env, &mut st, vs);
        if !vs.is_empty() {
            eprintln!("regression {name} fails");
        }
        st.violations.extend(vs);
    }
    let feats = feature_texts();
    enum_stream(env, &mut st, feats.len() as u64, |i, s| {
        let (class, text) = &feats[i as usize];
        s.count("feature_cases");
        if i % 17 == 0 {
            s.sample(1, || json!({"class": class, "text": text.chars().take(400).collect::<String>()}));
        }
        check_text("feature", text, class, s)
    });
    // seeds of the fuzz corpus (repository test contracts and friends), if present
    let seeds_dir = env.verif.join("fuzz/seeds");
    let mut seeds: Vec<String> = Vec::new();
    if let Ok(rd) = std::fs::read_dir(&seeds_dir) {
        let mut paths: Vec<_> = rd.filter_map(|e| e.ok()).map(|e| e.path()).collect();
        paths.sort();
        for p in paths {
            if let Ok(t) = std::fs::read_to_string(&p) {
                seeds.push(t);
            }
        }
    }
    enum_stream(env, &mut st, seeds.len() as u64, |i, s| {
        s.count("corpus_seed_cases");
        check_text("corpus", &seeds[i as usize], "corpus-seed", s)
    });
    let fz = fuzz_inputs();
    let mut fuzz_stats = json!({"status": "not run in this tier"});
    if let Some(fz) = &fz {
        fuzz_stats = fz.stats.clone();
        enum_stream(env, &mut st, fz.inputs.len() as u64, |i, s| {
            let (_, bytes) = &fz.inputs[i as usize];
            match std::str::from_utf8(bytes) {
                Ok(t) => {
                    s.count("fuzz_inputs_replayed");
                    check_text("fuzz-corpus", t, "fuzz-corpus", s)
                }
                Err(_) => {
                    s.count("fuzz_inputs_not_utf8");
                    vec![]
                }
            }
        });
    }
    let general = program::GenCfg { undecided: true, plant: 80, pragma_mode: 1, ..Default::default() };
    tape_stream(env, &mut st, "random", env.tier.n(12_000, 300_000), 1500, |tape, s| {
        let mut t = Tape::new(tape);
        let text = program::gen_program(&mut t, &general);
        s.sample(2, || json!({"class": "random", "text": text.chars().take(500).collect::<String>()}));
        check_text("random", &text, "random-any-pragma", s)
    });
    let deep = program::GenCfg { undecided: true, plant: 50, pragma_mode: 1, max_depth: 20, max_stmts: 2, max_items: 2, max_members: 3, ..Default::default() };
    tape_stream(env, &mut st, "random-deep", env.tier.n(1500, 40_000), 4000, |tape, s| {
        let mut t = Tape::new(tape);
        let text = program::gen_program(&mut t, &deep);
        check_text("random-deep", &text, "random-deep", s)
    });
    let wide = program::GenCfg { undecided: true, plant: 60, pragma_mode: 1, max_depth: 3, max_stmts: 2, max_items: 3, max_members: 300, ..Default::default() };
    tape_stream(env, &mut st, "random-wide", env.tier.n(300, 6_000), 6000, |tape, s| {
        let mut t = Tape::new(tape);
        let text = program::gen_program(&mut t, &wide);
        check_text("random-wide", &text, "random-wide", s)
    });
    let accepted = st.counters.get("accepted_files").copied().unwrap_or(0);
    let meta = Meta {
        rule: "cases = (parser-accepted file, detector) for all 30 detectors; files from a feature-directed list (no pragma, odd/huge versions, free functions, literals beyond u32/u64/u128/2^256 and with exponents, zero-argument calls, 254..600 functions before a constructor, deep and wide files), the fuzz corpus seeds and tape-decoded random programs with arbitrary pragma placement (proptest, shrinking); non-trivial = accepted by the parser, reference depth <= 64, at least 20 tree nodes, distinct by content".into(),
        assumptions: vec![
            "inputs on which solang-parser itself errors or panics are not 'accepted' and are discarded (counted)".into(),
            format!("this run used build profile '{}' (the check script runs both 'checked' = overflow checks + debug assertions on, and 'release' = off)", env.profile),
        ],
        extra: json!({"feature_cases": feats.len(), "fuzz": fuzz_stats}),
        floors: vec![
            ("accepted files".into(), accepted, 1500),
            ("files without any pragma".into(), st.counters.get("files_without_pragma").copied().unwrap_or(0), 50),
            ("files with a free function".into(), st.counters.get("files_with_free_function").copied().unwrap_or(0), 50),
        ],
    };
    finish(env, st, meta)
}
