//! C09 — version-gated detectors follow the file's `pragma solidity` version.

use crate::engine::*;
use crate::gen::program;
use crate::patterns;
use crate::props::detectors;
use crate::refmodel::detect;
use crate::tape::Tape;
use serde_json::{json, Value};
use std::collections::BTreeMap;

const SPELLINGS: &[&str] = &["", "^", "~", "=", ">=", ">", "^ ", ">= ", "= "];
const PLACEMENTS: &[&str] = &[
    "none", "abicoder-before", "experimental-before", "abicoder-after", "both-sides", "experimental-after-contract",
    // comments written inside the directive (for this lexer part of the pragma value): versions named there do not count
    "comment-in-front-of-version", "comment-behind-version-low", "comment-behind-version-high", "line-comment-behind-version",
    "slash-star-slash-comment-behind-version",
];

fn template(v: (u64, u64, u64), spelling: &str, placement: &str, using_level: u8) -> String {
    let mut s = String::new();
    let pragma = match placement {
        "comment-in-front-of-version" => format!("pragma solidity /* was 0.7.6 , soon 0.9.1 */ {}{}.{}.{} ;\n", spelling, v.0, v.1, v.2),
        "comment-behind-version-low" => format!("pragma solidity {}{}.{}.{} /* was 0.7.6 */ ;\n", spelling, v.0, v.1, v.2),
        "comment-behind-version-high" => format!("pragma solidity {}{}.{}.{} /* until 0.9.1 */ ;\n", spelling, v.0, v.1, v.2),
        "slash-star-slash-comment-behind-version" => format!("pragma solidity {}{}.{}.{} /*/ was 0.7.0 , soon 0.9.1 */ ;\n", spelling, v.0, v.1, v.2),
        "line-comment-behind-version" => format!("pragma solidity {}{}.{}.{} // 0.7.0 or 0.9.0\n ;\n", spelling, v.0, v.1, v.2),
        _ => format!("pragma solidity {}{}.{}.{} ;\n", spelling, v.0, v.1, v.2),
    };
    match placement {
        "abicoder-before" => s.push_str("pragma abicoder v2 ;\n"),
        "experimental-before" => s.push_str("pragma experimental ABIEncoderV2 ;\n"),
        "both-sides" => s.push_str("pragma experimental ABIEncoderV2 ;\npragma abicoder v2 ;\n"),
        _ => {}
    }
    s.push_str(&pragma);
    match placement {
        "abicoder-after" | "both-sides" => s.push_str("pragma abicoder v2 ;\n"),
        _ => {}
    }
    if using_level == 0 {
        s.push_str("using SafeMath for uint256 ;\n");
    }
    s.push_str("contract T {\n");
    if using_level == 1 {
        s.push_str("using SafeMath for uint256 ;\n");
    }
    if using_level == 2 {
        s.push_str("using Lib . SafeMath for * ;\n");
    }
    s.push_str("function f ( uint256 a , uint256 b ) public {\n");
    s.push_str("uint256 c = a . add ( b ) ;\n");
    s.push_str("c = c . sub ( 1 ) ;\n");
    s.push_str("c = c . mul ( 2 ) . div ( 3 ) ;\n");
    s.push_str("c = c . mod ( 2 ) ;\n");
    for n in [0usize, 1, 31, 32, 33, 64] {
        s.push_str(&format!("require ( a > 0 , \"{}\" ) ;\n", "m".repeat(n)));
    }
    // non-ASCII messages: 30 ASCII + one 2-byte character = 32 bytes / 31 characters; 16 three-byte characters = 48 bytes;
    // 10 three-byte characters = 30 bytes / 10 characters; 31 ASCII + nothing
    s.push_str(&format!("require ( a > 0 , \"{}{}\" ) ;\n", "m".repeat(30), '\u{e9}'));
    s.push_str(&format!("require ( a > 0 , unicode\"{}\" ) ;\n", "\u{4e16}".repeat(16)));
    s.push_str(&format!("require ( a > 0 , unicode\"{}\" ) ;\n", "\u{4e16}".repeat(10)));
    s.push_str(&format!("require ( a > 0 , \"{}{}\" ) ;\n", "m".repeat(29), '\u{e9}'));
    s.push_str("require ( a > 0 , b ) ;\n");
    s.push_str("require ( a > 0 ) ;\n");
    s.push_str("require ( \"thirty-two-bytes-or-more-as-the-only-argument\" ) ;\n");
    s.push_str("}\n}\n");
    if placement == "experimental-after-contract" {
        s.push_str("pragma experimental ABIEncoderV2 ;\n");
    }
    s
}

const LARGE_COMPONENTS: &[(u64, u64, u64)] = &[
    (0, 7, 99), (0, 7, 100), (0, 7, 104), (0, 7, 199), (0, 7, 204), (0, 7, 255), (0, 6, 204), (0, 6, 255), (0, 5, 255), (0, 0, 255),
    (0, 8, 99), (0, 8, 100), (0, 8, 104), (0, 8, 255), (0, 79, 0), (0, 80, 0), (0, 84, 0), (0, 100, 0), (0, 255, 0), (0, 255, 255),
    (2, 0, 0), (8, 0, 0), (10, 0, 0), (100, 0, 0), (255, 0, 0), (255, 255, 255),
];

fn near_threshold(v: (u64, u64, u64)) -> bool {
    if LARGE_COMPONENTS.contains(&v) {
        return true;
    }
    let interesting = [
        (0, 7, 0), (0, 7, 6), (0, 7, 40), (0, 8, 0), (0, 8, 1), (0, 8, 3), (0, 8, 4), (0, 8, 5), (0, 8, 10), (0, 8, 40), (0, 9, 0), (0, 9, 3), (0, 9, 4), (0, 10, 3), (0, 10, 0), (1, 0, 0), (1, 0, 4), (1, 2, 4), (1, 7, 0), (1, 8, 3), (0, 0, 0),
        (0, 7, 4), (0, 7, 3), (1, 8, 0), (1, 8, 4),
    ];
    interesting.contains(&v)
}

fn case(check: &str, text: &str, v: Option<(u64, u64, u64)>, placement: &str, st: &mut Stats) -> Vec<Violation> {
    // generator self-check: the file is in the domain and names the version we think
    if let Some(v) = v {
        match crate::parse(text) {
            Some(su) => {
                if detect::single_solidity_version(&su) != Some(v) {
                    st.harness_errors.push(format!("generated file does not name version {:?}: {}", v, text.lines().next().unwrap_or("")));
                    return vec![];
                }
            }
            None => {
                st.harness_errors.push(format!("generated file rejected by the parser: {}", text.chars().take(80).collect::<String>()));
                return vec![];
            }
        }
        if near_threshold(v) || placement.contains("before") || placement == "both-sides" {
            st.nontrivial(text);
        }
    }
    let mut out = detectors::check_text(check, "C09", text, st);
    // never both SafeMath detectors
    let pre = patterns::by_name("safe_math_pre_080").unwrap();
    let post = patterns::by_name("safe_math_post_080").unwrap();
    if let (Ok(a), Ok(b)) = (catch(|| pre.analyze(text, 0)), catch(|| post.analyze(text, 0))) {
        if !a.is_empty() && !b.is_empty() {
            out.push(Violation::new(check, "safe_math:pre-and-post-both-report", "safe_math_pre_080 and safe_math_post_080 both report the same file", json!({"text": text})));
        }
    }
    for o in out.iter_mut() {
        // root cause keys for C09: which side of which threshold
        if let Some(v) = v {
            let side = |t: (u64, u64, u64)| if v < t { "below" } else { "at-or-above" };
            let pat = o.case.get("pattern").and_then(|p| p.as_str()).unwrap_or("").to_string();
            let t = if pat.starts_with("safe_math") { (0, 8, 0) } else { (0, 8, 4) };
            let misleading = if v.0 >= 1 { "major>=1" } else if v.1 >= 9 { "minor>=9" } else if v.1 == 8 { "minor=8" } else { "minor<8" };
            let kind = o.sig.split(':').next().unwrap_or("").to_string();
            if kind == "missed" || kind == "spurious" {
                o.sig = format!("{kind}:{pat}:{}:{misleading}:{}", side(t), if placement.contains("comment") { "comment-inside-pragma" } else if placement == "none" || placement.contains("after") { "solidity-pragma-first" } else { "other-pragma-first" });
            }
        }
    }
    out
}

pub fn replay(_env: &Env, check: &str, case_v: &Value, st: &mut Stats) -> Vec<Violation> {
    let text = case_v.get("text").and_then(|t| t.as_str()).unwrap_or("");
    let v = crate::parse(text).and_then(|su| detect::single_solidity_version(&su));
    case(check, text, v, "replay", st)
}

pub fn run(env: &Env) -> i32 {
    let mut st = Stats::default();
    for (name, check, case_v) in regression_cases(env) {
        st.count("regressions_replayed");
        let vs = replay(env, &check, &case_v, &mut st);
        let vs = filter_known(env, &mut st, vs);
        if !vs.is_empty() {
            eprintln!("regression {name} fails");
        }
        st.violations.extend(vs);
    }
    // all triples major in {0,1} x minor in 0..=12 x patch in 0..=40
    let mut triples = Vec::new();
    for major in 0..=1u64 {
        for minor in 0..=12u64 {
            for patch in 0..=40u64 {
                triples.push((major, minor, patch));
            }
        }
    }
    // components of three and more digits (anything that folds the triple into one number, or keeps a
    // component in a narrow integer, goes wrong only there)
    triples.extend_from_slice(LARGE_COMPONENTS);
    let quick = env.tier == Tier::Quick;
    // quick: every triple x 3 spellings x 3 placements (rotating); thorough: full product
    let mut combos: Vec<((u64, u64, u64), &str, &str, u8)> = Vec::new();
    for (i, v) in triples.iter().enumerate() {
        if quick {
            for k in 0..3 {
                let sp = SPELLINGS[(i + k * 3) % SPELLINGS.len()];
                let pl = PLACEMENTS[(i + k * 2 + 1) % PLACEMENTS.len()];
                combos.push((*v, sp, pl, ((i + k) % 3) as u8));
            }
            combos.push((*v, "", "none", 1));
            if near_threshold(*v) {
                for sp in SPELLINGS {
                    for pl in PLACEMENTS {
                        combos.push((*v, sp, pl, 0));
                    }
                }
            }
        } else {
            for sp in SPELLINGS {
                for pl in PLACEMENTS {
                    combos.push((*v, sp, pl, ((i) % 3) as u8));
                }
            }
        }
    }
    enum_stream(env, &mut st, combos.len() as u64, |i, s| {
        let (v, sp, pl, ul) = combos[i as usize];
        let text = template(v, sp, pl, ul);
        s.mark("spellings", sp);
        s.mark("placements", pl);
        if near_threshold(v) {
            s.mark("threshold_neighbours_and_misleading_versions", &format!("{}.{}.{}", v.0, v.1, v.2));
        }
        if i % 997 == 0 {
            s.sample(2, || json!({"version": format!("{}.{}.{}", v.0, v.1, v.2), "spelling": sp, "placement": pl, "text": text}));
        }
        case("template", &text, Some(v), pl, s)
    });
    // monotonicity along the sorted triples (plain spelling, no other pragma), sequentially
    {
        let mut act: BTreeMap<&str, Vec<bool>> = BTreeMap::new();
        let mut sorted = triples.clone();
        sorted.sort();
        for v in &sorted {
            let text = template(*v, "", "none", 1);
            for name in detect::C09 {
                let p = patterns::by_name(name).unwrap();
                let r = catch(|| p.analyze(&text, 0)).map(|l| !l.is_empty()).unwrap_or(false);
                act.entry(name).or_default().push(r);
                st.evaluations += 1;
            }
        }
        for (name, bits) in &act {
            let changes = bits.windows(2).filter(|w| w[0] != w[1]).count();
            if changes > 1 {
                let idx = bits.windows(2).position(|w| w[0] != w[1]).unwrap();
                let second = bits.windows(2).enumerate().filter(|(_, w)| w[0] != w[1]).nth(1).map(|(i, _)| i).unwrap();
                let vs = filter_known(env, &mut st, vec![Violation::new(
                    "monotonicity",
                    format!("not-monotone:{name}"),
                    format!("{name}: activity changes {} times along the sorted versions (e.g. after {:?} and again after {:?}); the set of versions on which it reports must be an up-set or a down-set", changes, sorted[idx], sorted[second]),
                    json!({"text": template(sorted[second + 1], "", "none", 1)}),
                )]);
                st.violations.extend(vs);
            }
        }
    }
    // random bodies with / without the using directive, random version
    let cfg = program::GenCfg { undecided: false, plant: 150, pragma_mode: 0, ..Default::default() };
    tape_stream(env, &mut st, "random-bodies", env.tier.n(20_000, 200_000), 1400, |tape, s| {
        let mut t = Tape::new(tape);
        let text = program::gen_program(&mut t, &cfg);
        s.sample(1, || json!({"text": text.chars().take(600).collect::<String>()}));
        let v = crate::parse(&text).and_then(|su| detect::single_solidity_version(&su));
        if v.is_none() {
            s.count("random_bodies_outside_domain");
        }
        case("random-bodies", &text, v, "none", s)
    });
    let neighbours = st.sets.get("threshold_neighbours_and_misleading_versions").map(|s| s.len()).unwrap_or(0) as u64;
    let meta = Meta {
        rule: format!("cases = (version triple, operator spelling, placement of unrelated pragmas, body); all {} triples 0.0.0..1.12.40 plus 26 triples with two- and three-digit components up to 255 are enumerated (quick: 4 spelling/placement combinations per triple plus the full 9x6 product for threshold neighbours and misleading versions; thorough: full product) with a fixed template body (SafeMath calls add/sub/mul/div/mod, requires with 0/1/31/32/33/64-byte strings, non-string and missing messages) plus random bodies; oracle = version model on (major, minor, patch) triples with thresholds 0.8.0 and 0.8.4, never both SafeMath detectors, monotone activity along sorted versions; non-trivial = version within one step of a threshold or misleading by minor/patch alone (0.8.10, 0.9.0, 0.10.3, 1.0.0, 1.2.4 ...), or an unrelated pragma precedes the solidity pragma", triples.len()),
        assumptions: vec!["domain: exactly one 'pragma solidity [op]X.Y.Z'; files outside it (ranges, several solidity pragmas) only relax the oracle to 'may'".into()],
        extra: json!({"exhaustive_subdomains": ["all version triples major 0..1, minor 0..12, patch 0..40"]}),
        floors: vec![
            ("threshold neighbours and misleading versions visited".into(), neighbours, 25),
            ("spellings used".into(), st.sets.get("spellings").map(|s| s.len()).unwrap_or(0) as u64, 9),
            ("placements used".into(), st.sets.get("placements").map(|s| s.len()).unwrap_or(0) as u64, 6),
        ],
    };
    finish(env, st, meta)
}
