//! C10 — packing suggestions are sound with respect to the storage-slot model.

use crate::engine::*;
use crate::tape::Tape;
use serde_json::{json, Value};
use solang_parser::pt;
use solstat::analyzer::optimizations::{analyze_for_optimization, Optimization};
use solstat::analyzer::utils::{get_type_size, storage_slots_used};

/// Position-based formulation of Solidity's layout rule (deliberately not the
/// greedy counter used in the code): an absolute bit cursor; an item that would
/// cross a 256-bit boundary is moved to the next boundary.
pub fn slot_model(sizes: &[u16]) -> u32 {
    let mut cursor: u64 = 0;
    for s in sizes {
        let s = *s as u64;
        let used_in_slot = cursor % 256;
        if used_in_slot + s > 256 {
            cursor += 256 - used_in_slot;
        }
        cursor += s;
    }
    ((cursor + 255) / 256) as u32
}

/// All elementary type keywords with their size in bits per the property statement.
pub fn type_table() -> Vec<(String, u16)> {
    let mut v: Vec<(String, u16)> = vec![
        ("bool".into(), 8),
        ("address".into(), 160),
        ("address payable".into(), 160),
        ("string".into(), 256),
        ("bytes".into(), 256),
        ("byte".into(), 8),
        ("uint".into(), 256),
        ("int".into(), 256),
        ("mapping ( uint256 => bool )".into(), 256),
        ("mapping ( address => mapping ( uint8 => uint8 ) )".into(), 256),
        ("uint8 [ ]".into(), 256),
        ("uint8 [ 4 ]".into(), 256),
        ("bool [ ] [ ]".into(), 256),
        ("IERC20".into(), 256),
        ("Lib . T".into(), 256),
        ("function ( uint8 ) external returns ( bool )".into(), 256),
    ];
    for n in 1..=32u16 {
        v.push((format!("uint{}", n * 8), n * 8));
        v.push((format!("int{}", n * 8), n * 8));
        v.push((format!("bytes{}", n), n * 8));
    }
    v
}

fn seq_case(check: &str, seq: &[u16], st: &mut Stats) -> Vec<Violation> {
    let expected = slot_model(seq);
    let actual = match catch(|| storage_slots_used(seq.to_vec())) {
        Ok(a) => a,
        Err(site) => return vec![Violation::new(check, format!("panic:{site}"), "storage_slots_used panicked", json!({"sizes": seq}))],
    };
    // non-trivial: some prefix sums to exactly 256 or to 257..263 within a slot
    let mut in_slot = 0u32;
    let mut nt = false;
    for s in seq {
        let s = *s as u32;
        if in_slot + s == 256 {
            nt = true;
        }
        if in_slot + s > 256 && in_slot + s <= 263 {
            nt = true;
        }
        if in_slot + s > 256 {
            in_slot = s;
        } else {
            in_slot += s;
        }
    }
    if nt {
        st.nontrivial(seq);
    }
    if actual != expected {
        return vec![Violation::new(
            check,
            "slot-count",
            format!("storage_slots_used({:?}) = {}, Solidity's layout rule assigns {}", seq, actual, expected),
            json!({"sizes": seq, "expected": expected, "actual": actual}),
        )];
    }
    vec![]
}

fn size_case(st: &mut Stats) -> Vec<Violation> {
    let mut out = Vec::new();
    for (ty, bits) in type_table() {
        st.evaluations += 1;
        st.count("type_keywords");
        let text = format!("contract C {{ {ty} v ; }}");
        let su = match crate::parse(&text) {
            Some(su) => su,
            None => {
                st.harness_errors.push(format!("type table entry not parseable: {ty}"));
                continue;
            }
        };
        let mut found = None;
        if let pt::SourceUnitPart::ContractDefinition(cd) = &su.0[0] {
            if let pt::ContractPart::VariableDefinition(v) = &cd.parts[0] {
                found = Some(v.ty.clone());
            }
        }
        let ty_expr = match found {
            Some(t) => t,
            None => {
                st.harness_errors.push(format!("type table entry did not parse as a variable: {ty}"));
                continue;
            }
        };
        let actual = get_type_size(ty_expr);
        if actual != bits {
            out.push(Violation::new("type-size", format!("type-size:{}", ty.split(' ').next().unwrap_or("")), format!("get_type_size({ty}) = {actual}, expected {bits}"), json!({"type": ty, "expected": bits, "actual": actual})));
        }
    }
    out
}

fn next_permutation(v: &mut [u16]) -> bool {
    if v.len() < 2 {
        return false;
    }
    let mut i = v.len() - 1;
    while i > 0 && v[i - 1] >= v[i] {
        i -= 1;
    }
    if i == 0 {
        return false;
    }
    let mut j = v.len() - 1;
    while v[j] <= v[i - 1] {
        j -= 1;
    }
    v.swap(i - 1, j);
    v[i..].reverse();
    true
}

fn optimum(sizes: &[u16]) -> u32 {
    let mut v = sizes.to_vec();
    v.sort();
    let mut best = slot_model(&v);
    while next_permutation(&mut v) {
        best = best.min(slot_model(&v));
    }
    best
}

#[derive(Clone, Debug)]
struct Container {
    line: i32,
    is_struct: bool,
    sizes: Vec<u16>,
    /// the contract names a base that is defined in the file and has members of its own: whether "its
    /// members" include the inherited ones is not stated, so nothing is demanded of it
    populated_base: bool,
    /// `library` / `interface`: the statement speaks of contracts and structs; only "never when optimal" is demanded
    not_a_contract: bool,
}

/// Build a file with several contracts / structs, each head on its own line.
fn gen_file(t: &mut Tape) -> (String, Vec<Container>) {
    let table = type_table();
    let mut text = String::from("pragma solidity 0.8.17 ;\n");
    let mut line = 2;
    let mut conts = Vec::new();
    let n = t.range(1, 4);
    let mut id = 0;
    // indices of the contracts that declare members (a base among them brings inherited storage)
    let mut populated: Vec<usize> = Vec::new();
    let members = |t: &mut Tape, text: &mut String, line: &mut i32, id: &mut usize, max: usize| -> Vec<u16> {
        let k = t.below(max + 1);
        let mut sizes = Vec::new();
        // every fourth container draws from a palette of sizes that sit on the slot boundary
        // (8 + 248, 96 + 160, 120 + 136, 128 + 128): complements that fill a slot exactly
        let palette: Vec<(String, u16)> = if t.chance(64) {
            table.iter().filter(|(n, _)| ["bool", "uint8", "bytes1", "uint248", "int248", "bytes31", "uint256", "uint128", "uint120", "uint136", "address", "uint96", "uint88", "uint104", "bytes32"].contains(&n.as_str())).cloned().collect()
        } else {
            Vec::new()
        };
        // every eighth container: 5 to 8 byte-granular members in a declared order that is worse than both
        // sorted orders (the class the statement demands a report for), found by trying tape-chosen orders
        if max >= 8 && t.chance(32) {
            let sized: Vec<(String, u16)> = table[16..].to_vec();
            let n = t.range(5, 8);
            let mut pick: Vec<(String, u16)> = (0..n).map(|_| t.pick(&sized).clone()).collect();
            for _ in 0..12 {
                let sizes_now: Vec<u16> = pick.iter().map(|p| p.1).collect();
                let mut asc = sizes_now.clone();
                asc.sort();
                let mut desc = asc.clone();
                desc.reverse();
                let d = slot_model(&sizes_now);
                if slot_model(&asc) < d && slot_model(&desc) < d {
                    break;
                }
                let perm = t.permutation(pick.len());
                pick = perm.into_iter().map(|i| pick[i].clone()).collect();
            }
            for (ty, bits) in pick {
                *id += 1;
                text.push_str(&format!("{ty} m{} ;\n", *id));
                *line += 1;
                sizes.push(bits);
            }
            return sizes;
        }
        for _ in 0..k {
            // bias to small types so that packing matters
            let (ty, bits) = if !palette.is_empty() {
                t.pick(&palette).clone()
            } else if t.chance(200) {
                t.pick(&table[16..]).clone()
            } else {
                t.pick(&table[..16]).clone()
            };
            // function types cannot be struct members with attributes; fine as plain members
            *id += 1;
            text.push_str(&format!("{ty} m{} ;\n", *id));
            *line += 1;
            sizes.push(bits);
        }
        sizes
    };
    for c in 0..n {
        match t.below(3) {
            0 => {
                // file-level struct
                let l = line;
                text.push_str(&format!("struct S{c} {{\n"));
                line += 1;
                let sizes = members(t, &mut text, &mut line, &mut id, 8);
                text.push_str("}\n");
                line += 1;
                conts.push(Container { line: l, is_struct: true, sizes, populated_base: false, not_a_contract: false });
            }
            _ => {
                let l = line;
                let kw = *t.pick(&["contract", "contract", "abstract contract", "library", "interface"]);
                // a base contract, defined earlier in the file or not at all: the verdict concerns the
                // contract's own members
                let mut populated_base = false;
                let base = if kw.ends_with("contract") && c > 0 && t.chance(90) {
                    if t.chance(180) {
                        let b = t.below(c);
                        populated_base = populated.contains(&b);
                        format!(" is C{}", b)
                    } else {
                        " is Base , Ownable ( 1 )".to_string()
                    }
                } else {
                    String::new()
                };
                text.push_str(&format!("{kw} C{c}{base} {{\n"));
                line += 1;
                let mut sizes = members(t, &mut text, &mut line, &mut id, 4);
                // nested struct(s)
                if t.chance(100) {
                    let sl = line;
                    // the same struct name may occur in several contracts (A.Order, B.Order)
                    if t.chance(128) {
                        text.push_str("struct Order {\n");
                    } else {
                        text.push_str(&format!("struct N{c} {{\n"));
                    }
                    line += 1;
                    let ss = members(t, &mut text, &mut line, &mut id, 8);
                    text.push_str("}\n");
                    line += 1;
                    conts.push(Container { line: sl, is_struct: true, sizes: ss, populated_base: false, not_a_contract: false });
                }
                // a function in between does not occupy storage
                if t.chance(80) {
                    text.push_str("function f ( ) public { }\n");
                    line += 1;
                }
                let more = members(t, &mut text, &mut line, &mut id, 4);
                sizes.extend(more);
                text.push_str("}\n");
                line += 1;
                if !sizes.is_empty() {
                    populated.push(c);
                }
                conts.push(Container { line: l, is_struct: false, sizes, populated_base, not_a_contract: !kw.ends_with("contract") });
            }
        }
    }
    (text, conts)
}

fn file_case(check: &str, text: &str, conts: &[Container], st: &mut Stats) -> Vec<Violation> {
    let mut out = Vec::new();
    if crate::parse(text).is_none() {
        st.count("generator_rejected_by_parser");
        return out;
    }
    let rep_c = match catch(|| analyze_for_optimization(text, 0, Optimization::PackStorageVariables)) {
        Ok(r) => r,
        Err(site) => return vec![Violation::new(check, format!("panic:{site}"), "pack_storage_variables panicked", json!({"text": text}))],
    };
    let rep_s = match catch(|| analyze_for_optimization(text, 0, Optimization::PackStructVariables)) {
        Ok(r) => r,
        Err(site) => return vec![Violation::new(check, format!("panic:{site}"), "pack_struct_variables panicked", json!({"text": text}))],
    };
    let known_lines: Vec<i32> = conts.iter().map(|c| c.line).collect();
    for l in rep_c.iter().chain(rep_s.iter()) {
        if !known_lines.contains(l) {
            out.push(Violation::new(check, "report-on-foreign-line", format!("line {l} is reported but no contract or struct begins there"), json!({"text": text})));
            return out;
        }
    }
    for c in conts {
        st.evaluations += 1;
        let declared = slot_model(&c.sizes);
        let opt = optimum(&c.sizes);
        let mut asc = c.sizes.clone();
        asc.sort();
        let mut desc = asc.clone();
        desc.reverse();
        let reported = if c.is_struct { rep_s.contains(&c.line) } else { rep_c.contains(&c.line) };
        let wrong_kind = if c.is_struct { rep_c.contains(&c.line) } else { rep_s.contains(&c.line) };
        let which = if c.is_struct { "struct" } else { "contract" };
        let sort_differs = slot_model(&asc) != slot_model(&desc);
        let suboptimal_but_sorting_does_not_help = declared > opt && slot_model(&asc) >= declared;
        let optimal_but_unsorted = declared == opt && c.sizes != asc && c.sizes != desc;
        if sort_differs {
            st.count("ascending_and_descending_sorts_differ");
        }
        if c.sizes.len() >= 5 && slot_model(&asc) < declared && slot_model(&desc) < declared {
            st.count("containers_of_five_or_more_members_where_both_sorts_save");
        }
        if suboptimal_but_sorting_does_not_help {
            st.count("suboptimal_but_sorting_does_not_help");
        }
        if optimal_but_unsorted {
            st.count("optimal_but_unsorted");
        }
        if sort_differs || suboptimal_but_sorting_does_not_help || optimal_but_unsorted {
            st.nontrivial(&(c.is_struct, &c.sizes));
        }
        let case = json!({"text": text, "container_line": c.line, "kind": which, "sizes": c.sizes, "declared_slots": declared, "optimal_slots": opt});
        if wrong_kind {
            out.push(Violation::new(check, format!("{which}:reported-by-other-detector"), format!("the {which} on line {} is reported by the detector for the other kind", c.line), case.clone()));
        }
        if c.populated_base {
            st.count("containers_with_a_populated_base_(undecided)");
            continue;
        }
        if reported && declared <= opt {
            out.push(Violation::new(check, format!("{which}:reported-although-optimal"), format!("{which} on line {} with sizes {:?} is reported although its declared order already uses the minimum of {} slots", c.line, c.sizes, opt), case.clone()));
        }
        if !reported && !c.not_a_contract && slot_model(&asc) < declared && slot_model(&desc) < declared {
            out.push(Violation::new(check, format!("{which}:not-reported-although-sorting-saves"), format!("{which} on line {} with sizes {:?} is not reported although sorting either way saves a slot ({} -> {}/{})", c.line, c.sizes, declared, slot_model(&asc), slot_model(&desc)), case.clone()));
        }
    }
    out
}

pub fn replay(_env: &Env, check: &str, case: &Value, st: &mut Stats) -> Vec<Violation> {
    if let Some(s) = case.get("sizes").and_then(|s| s.as_array()) {
        if case.get("text").is_none() {
            let seq: Vec<u16> = s.iter().filter_map(|x| x.as_u64().map(|x| x as u16)).collect();
            return seq_case(check, &seq, st);
        }
    }
    if case.get("type").is_some() {
        return size_case(st);
    }
    if let Some(tape) = case.get("tape").and_then(|t| t.as_array()) {
        let bytes: Vec<u8> = tape.iter().filter_map(|x| x.as_u64().map(|x| x as u8)).collect();
        let mut t = Tape::new(&bytes);
        let (text, conts) = gen_file(&mut t);
        return file_case(check, &text, &conts, st);
    }
    vec![]
}

pub fn run(env: &Env) -> i32 {
    let mut st = Stats::default();
    for (name, check, case) in regression_cases(env) {
        st.count("regressions_replayed");
        let vs = replay(env, &check, &case, &mut st);
        let vs = filter_known(env, &mut st, vs);
        if !vs.is_empty() {
            eprintln!("regression {name} fails");
        }
        st.violations.extend(vs);
    }
    // (b) type sizes: exhaustive over the keyword list
    let vs = size_case(&mut st);
    let vs = filter_known(env, &mut st, vs);
    st.violations.extend(vs);
    // (a) all sequences of length <= 4 (quick) / 5 (thorough) over the 32 byte-granular sizes
    let maxlen = env.tier.n(4, 5);
    let mut total = 0u64;
    let mut starts = Vec::new();
    for len in 0..=maxlen {
        starts.push(total);
        total += 32u64.pow(len);
    }
    enum_stream(env, &mut st, total, |i, s| {
        let len = (0..=maxlen as usize).rev().find(|l| starts[*l] <= i).unwrap();
        let mut k = i - starts[len];
        let mut seq = Vec::with_capacity(len);
        for _ in 0..len {
            seq.push(((k % 32) as u16 + 1) * 8);
            k /= 32;
        }
        if i % 100_003 == 0 {
            s.sample(2, || json!({"sizes": seq}));
        }
        seq_case("sequences-exhaustive", &seq, s)
    });
    // random longer sequences
    use proptest::prelude::*;
    value_stream(env, &mut st, "sequences-random", env.tier.n(100_000, 3_000_000), || proptest::collection::vec((1u16..=32).prop_map(|n| n * 8), 0..64), |seq: &Vec<u16>, s| seq_case("sequences-random", seq, s));
    // long sequences (hundreds of members: totals beyond 65 535 bits)
    value_stream(env, &mut st, "sequences-long", env.tier.n(3000, 60_000), || proptest::collection::vec(prop_oneof![3 => Just(256u16), 1 => (1u16..=32).prop_map(|n| n * 8)], 200..700), |seq: &Vec<u16>, s| {
        s.count("long_sequences");
        seq_case("sequences-long", seq, s)
    });
    // wide containers: n members of 256 bits framed by two halves (the halves can share a slot only when adjacent)
    {
        let ns: Vec<usize> = vec![1, 100, 254, 255, 256, 257, 298, 512, 1000];
        enum_stream(env, &mut st, ns.len() as u64 * 2, |i, s| {
            let n = ns[(i / 2) as usize];
            let is_struct = i % 2 == 1;
            let mut text = String::from("pragma solidity 0.8.17 ;\n");
            text.push_str(if is_struct { "struct W {\n" } else { "contract W {\n" });
            text.push_str("uint128 h0 ;\n");
            for k in 0..n {
                text.push_str(&format!("uint256 w{k} ;\n"));
            }
            text.push_str("uint128 h1 ;\n}\n");
            let mut sizes = vec![128u16];
            sizes.extend(std::iter::repeat(256u16).take(n));
            sizes.push(128);
            s.count("wide_containers");
            // optimum is known: n + 1 slots (the two halves together); declared order uses n + 2
            let rep = match catch(|| analyze_for_optimization(&text, 0, if is_struct { Optimization::PackStructVariables } else { Optimization::PackStorageVariables })) {
                Ok(r) => r,
                Err(site) => return vec![Violation::new("wide", format!("panic:{site}"), format!("packing detector panics on a container with {} members", n + 2), json!({"sizes_summary": format!("128, {n} x 256, 128")}))],
            };
            let mut out = seq_case("wide", &sizes, s);
            if !rep.contains(&2) {
                out.push(Violation::new("wide", format!("{}:not-reported-although-sorting-saves", if is_struct { "struct" } else { "contract" }), format!("a container with members 128, {n} x 256, 128 bits is not reported although sorting saves a slot"), json!({"text_summary": format!("128, {n} x 256, 128"), "struct": is_struct})));
            }
            out
        });
    }
    // (c) files with contracts and structs
    tape_stream(env, &mut st, "files", env.tier.n(60_000, 1_500_000), 300, |tape, s| {
        let mut t = Tape::new(tape);
        let (text, conts) = gen_file(&mut t);
        s.sample(1, || json!({"text": text, "containers": conts.iter().map(|c| json!({"line": c.line, "struct": c.is_struct, "sizes": c.sizes})).collect::<Vec<_>>()}));
        let mut vs = file_case("files", &text, &conts, s);
        for v in vs.iter_mut() {
            v.case["tape"] = json!(tape);
        }
        vs
    });
    let meta = Meta {
        rule: format!("(a) size sequences: all {} sequences of length <= {} over the 32 byte-granular sizes 8..256 (complete) plus random sequences up to length 64, oracle = position-based slot model; non-trivial = some item fills a slot to exactly 256 bits or overshoots it by 1..7 bits; (b) get_type_size for every elementary type keyword and representative non-elementary types (complete list of {} entries); (c) generated files with 1-4 contracts/structs (file-level and nested) of 0-8 members without constant/immutable members: reported => declared > optimum over all permutations, declared == optimum => not reported, both sorts save => reported; non-trivial = (ascending and descending sorts differ: never observed, next-fit uses the same number of slots on a list and on its reversal), or sub-optimal but sorting does not help, or optimal but unsorted", total, maxlen, type_table().len()),
        assumptions: vec![
            "constant / immutable members are not generated: whether they occupy a slot is not stated by the property".into(),
            "sizes: bool 8, address 160, (u)intN N, bytesN 8N, byte 8, everything else 256 (property statement)".into(),
        ],
        extra: json!({"exhaustive_subdomains": [format!("all sequences of length <= {maxlen} over 32 sizes"), "all elementary type keywords"]}),
        floors: vec![
            ("containers sub-optimal although sorting does not help".into(), st.counters.get("suboptimal_but_sorting_does_not_help").copied().unwrap_or(0), 50),
            ("containers optimal but unsorted".into(), st.counters.get("optimal_but_unsorted").copied().unwrap_or(0), 50),
            ("containers of five or more members where both sorts save a slot".into(), st.counters.get("containers_of_five_or_more_members_where_both_sorts_save").copied().unwrap_or(0), 200),
        ],
    };
    finish(env, st, meta)
}
