//! C11 — the report lists exactly the findings, each under its own pattern's section.
//! C12 — totals and headings agree with the findings shown.
//! (library level; the end-to-end part through the binary lives in `e2e.rs`)

use crate::engine::*;
use crate::gen::findings::{self, Findings};
use crate::refmodel::report::{self, parse_report};
use serde_json::{json, Value};
use std::collections::BTreeMap;

pub const CATEGORIES: [&str; 3] = ["optimizations", "vulnerabilities", "qa"];

fn expected_multiset(f: &Findings) -> BTreeMap<(String, String, i64), usize> {
    let mut m = BTreeMap::new();
    for (name, files) in f {
        for (file, lines) in files {
            for l in lines {
                *m.entry((name.clone(), file.clone(), *l as i64)).or_insert(0) += 1;
            }
        }
    }
    m
}

fn nontrivial_c11(f: &Findings) -> bool {
    let many_patterns = f.len() >= 3;
    let two_files = f.iter().any(|(_, files)| files.len() >= 2);
    let odd_name = f.iter().any(|(_, files)| files.iter().any(|(n, _)| n.contains(':') || n.starts_with("- ") || n.starts_with('#')));
    let dup_name = f.iter().any(|(_, files)| {
        let mut names: Vec<&String> = files.iter().map(|(n, _)| n).collect();
        names.sort();
        names.windows(2).any(|w| w[0] == w[1])
    });
    many_patterns || two_files || odd_name || dup_name
}

/// C11 oracle on one rendered category.
pub fn check_c11(check: &str, category: &str, f: &Findings, st: &mut Stats) -> Vec<Violation> {
    let case = json!({"category": category, "findings": findings::to_json(f)});
    let text = match catch(|| findings::render(category, f)) {
        Ok(t) => t,
        Err(site) => return vec![Violation::new(check, format!("panic:{site}"), "report renderer panicked", case)],
    };
    let parsed = parse_report(&text);
    let exp = expected_multiset(f);
    let got = parsed.multiset();
    if nontrivial_c11(f) {
        st.nontrivial(&(category, format!("{:?}", f)));
    }
    for (_, files) in f {
        for (n, _) in files {
            if n.contains(':') {
                st.count("file_names_with_colon");
            }
            if n.starts_with("- ") || n.starts_with('#') {
                st.count("file_names_like_markdown");
            }
            if !n.is_ascii() {
                st.count("file_names_non_ascii");
            }
        }
    }
    let mut out = Vec::new();
    if !parsed.problems.is_empty() {
        out.push(Violation::new(check, format!("{category}:structure"), format!("report structure: {}", parsed.problems[0]), case.clone()));
    }
    // every finding listed, nothing else, each under its own pattern
    for (k, n) in &exp {
        let g = got.get(k).copied().unwrap_or(0);
        if g < *n {
            // is it listed under another pattern?
            let elsewhere = got.iter().any(|((p, f2, l), _)| p != &k.0 && f2 == &k.1 && *l == k.2);
            let sig = if elsewhere { "entry-under-wrong-section" } else { "entry-missing" };
            out.push(Violation::new(check, format!("{category}:{sig}"), format!("finding {:?} is listed {} time(s) under its pattern's section, expected {}", k, g, n), case.clone()));
            return out;
        }
    }
    for (k, g) in &got {
        let n = exp.get(k).copied().unwrap_or(0);
        if *g > n {
            out.push(Violation::new(check, format!("{category}:entry-not-a-finding"), format!("report lists {:?} {} time(s), findings contain it {} time(s)", k, g, n), case.clone()));
            return out;
        }
    }
    // section present iff the pattern has findings, exactly once
    let mut sec_count: BTreeMap<&str, usize> = BTreeMap::new();
    for s in &parsed.sections {
        *sec_count.entry(s.as_str()).or_insert(0) += 1;
    }
    for (name, files) in f {
        // a key with an empty file vector has no finding: its section must not appear
        if files.is_empty() {
            st.count("patterns_with_empty_file_vector");
            continue;
        }
        if sec_count.get(name.as_str()).copied().unwrap_or(0) != 1 {
            out.push(Violation::new(check, format!("{category}:section-missing-or-repeated"), format!("section of {name} appears {} times", sec_count.get(name.as_str()).copied().unwrap_or(0)), case.clone()));
            return out;
        }
    }
    for (s, _) in &sec_count {
        if !f.iter().any(|(n, files)| n == s && !files.is_empty()) {
            out.push(Violation::new(check, format!("{category}:section-without-findings"), format!("section of {s} is present although it has no finding"), case.clone()));
            return out;
        }
    }
    out
}

/// C12 oracle on one rendered category (totals, severities).
pub fn check_c12(check: &str, category: &str, f: &Findings, st: &mut Stats) -> Vec<Violation> {
    let case = json!({"category": category, "findings": findings::to_json(f)});
    let text = match catch(|| findings::render(category, f)) {
        Ok(t) => t,
        Err(site) => return vec![Violation::new(check, format!("panic:{site}"), "report renderer panicked", case)],
    };
    let parsed = parse_report(&text);
    let mut out = Vec::new();
    let entries = parsed.entries.len() as i64;
    let multi = f.iter().any(|(_, files)| files.len() >= 2 && files.iter().any(|(_, l)| l.len() >= 2));
    match category {
        "optimizations" => {
            if multi {
                st.nontrivial(&(category, format!("{:?}", f)));
            }
            // a part without entries may omit its overview altogether
            if parsed.total_optimizations != Some(entries) && !(entries == 0 && parsed.total_optimizations.is_none()) {
                out.push(Violation::new(check, "optimizations:total", format!("overview prints total {:?}, the part lists {} entries", parsed.total_optimizations, entries), case.clone()));
            }
        }
        "vulnerabilities" => {
            let sev_present: Vec<&str> = ["High", "Medium", "Low"].into_iter().filter(|s| f.iter().any(|(n, files)| !files.is_empty() && report::severity_of(n) == Some(*s))).collect();
            if sev_present.len() < 3 || multi {
                st.nontrivial(&(category, format!("{:?}", f)));
            }
            st.mark("vulnerability_subsets", &{
                let mut names: Vec<&str> = f.iter().map(|(n, _)| n.as_str()).collect();
                names.sort();
                names.join("+")
            });
            if parsed.total_vulnerabilities != Some(entries) && !(entries == 0 && parsed.total_vulnerabilities.is_none()) {
                out.push(Violation::new(check, "vulnerabilities:total", format!("overview prints total {:?}, the part lists {} entries", parsed.total_vulnerabilities, entries), case.clone()));
            }
            for s in ["High", "Medium", "Low"] {
                let n = parsed.severity_headings.iter().filter(|h| h.as_str() == s).count();
                let want = sev_present.contains(&s);
                if want && n != 1 {
                    out.push(Violation::new(check, format!("vulnerabilities:severity-heading-missing:{s}"), format!("'## {s} Risk' appears {n} times although a {s} severity finding exists"), case.clone()));
                }
                if !want && n != 0 {
                    out.push(Violation::new(check, format!("vulnerabilities:severity-heading-without-findings:{s}"), format!("'## {s} Risk' is printed although no {s} severity finding exists"), case.clone()));
                }
            }
            for e in &parsed.entries {
                let want = report::severity_of(&e.pattern);
                if e.severity.as_deref() != want {
                    out.push(Violation::new(check, format!("vulnerabilities:wrong-severity:{}", e.pattern), format!("{} is listed under {:?}, expected {:?}", e.pattern, e.severity, want), case.clone()));
                    break;
                }
            }
        }
        _ => {}
    }
    out
}

pub fn replay(env: &Env, check: &str, case: &Value, st: &mut Stats) -> Vec<Violation> {
    if case.get("tree").is_some() {
        return crate::props::e2e::replay_tree(env, check, case, st);
    }
    let cat = case.get("category").and_then(|c| c.as_str()).unwrap_or("optimizations").to_string();
    let f = findings::from_json(case.get("findings").unwrap_or(&Value::Null));
    let cat: &str = CATEGORIES.iter().find(|c| **c == cat).copied().unwrap_or("optimizations");
    if check.starts_with("c12") {
        check_c12(check, cat, &f, st)
    } else {
        check_c11(check, cat, &f, st)
    }
}

pub fn run_c11(env: &Env) -> i32 {
    let mut st = Stats::default();
    for (name, check, case) in regression_cases(env) {
        st.count("regressions_replayed");
        let vs = replay(env, &check, &case, &mut st);
        let vs = filter_known(env, &mut st, vs);
        if !vs.is_empty() {
            eprintln!("regression {name} fails");
        }
        st.violations.extend(vs);
    }
    for cat in CATEGORIES {
        let name = format!("c11-{cat}");
        value_stream(env, &mut st, &name, env.tier.n(40_000, 600_000), || findings::findings(cat, 0), |f: &Findings, s| {
            s.count(&format!("maps_{cat}"));
            s.sample(1, || json!({"category": cat, "findings": findings::to_json(f)}));
            check_c11(&name, cat, f, s)
        });
    }
    crate::props::e2e::report_roundtrip(env, &mut st, env.tier.n(150, 3000));
    let meta = Meta {
        rule: "cases = findings maps per category (any subset and insertion order of patterns, 1-4 files per pattern with names biased to ':', leading '- ' / '#', '### Lines', duplicates, long and non-ASCII names, 1-4 lines in 0..=i32::MAX); oracle = round trip through an independent report parser; non-trivial = >= 3 patterns, or >= 2 files under one pattern, or a markdown-like / ':' / duplicated file name; plus end-to-end runs of the binary on generated trees".into(),
        assumptions: vec![
            "the fingerprint table in harness/src/refmodel/report.rs identifies each pattern's explanatory section (one unique line per pattern, checked unique across all section texts)".into(),
            "maps are restricted to what analyze_dir can produce (no empty file vectors or line sets)".into(),
        ],
        extra: json!({}),
        floors: vec![
            ("file names containing ':'".into(), st.counters.get("file_names_with_colon").copied().unwrap_or(0), 500),
            ("markdown-like file names".into(), st.counters.get("file_names_like_markdown").copied().unwrap_or(0), 500),
        ],
    };
    finish(env, st, meta)
}

pub fn run_c12(env: &Env) -> i32 {
    let mut st = Stats::default();
    for (name, check, case) in regression_cases(env) {
        st.count("regressions_replayed");
        let vs = replay(env, &check, &case, &mut st);
        let vs = filter_known(env, &mut st, vs);
        if !vs.is_empty() {
            eprintln!("regression {name} fails");
        }
        st.violations.extend(vs);
    }
    // all 16 subsets of the four vulnerability patterns, exhaustively, x random multiplicities
    let vnames = findings::names_of("vulnerabilities");
    for mask in 0u32..16 {
        let subset: Vec<&'static str> = vnames.iter().enumerate().filter(|(i, _)| mask & (1 << i) != 0).map(|(_, n)| *n).collect();
        use proptest::prelude::*;
        let mk = || {
            let per: Vec<_> = subset.iter().map(|n| (Just(n.to_string()), findings::files(false))).collect();
            per.prop_shuffle()
        };
        let name = format!("c12-vuln-subset-{mask}");
        value_stream(env, &mut st, &name, env.tier.n(600, 20_000), mk, |f: &Findings, s| {
            s.sample(1, || json!({"category": "vulnerabilities", "findings": findings::to_json(f)}));
            check_c12("c12-vuln", "vulnerabilities", f, s)
        });
    }
    value_stream(env, &mut st, "c12-optimizations", env.tier.n(20_000, 400_000), || findings::findings("optimizations", 0), |f: &Findings, s| check_c12("c12-opt", "optimizations", f, s));
    crate::props::e2e::category_presence(env, &mut st, env.tier.n(200, 4000));
    let subsets = st.sets.get("vulnerability_subsets").map(|s| s.len()).unwrap_or(0) as u64;
    let meta = Meta {
        rule: "cases = findings maps; all 16 subsets of the four vulnerability patterns (exhaustive) x random file/line multiplicities, random optimisation maps, and binary runs on trees for category presence; oracle = independent report parser: printed total = listed entries, severity heading present iff a finding of that severity exists, each vulnerability under its own severity; non-trivial = subset lacking a severity, or >= 2 files x >= 2 lines".into(),
        assumptions: vec!["severity table from the property statement: selfdestruct high, divide-before-multiply medium, ERC20 and pragma low".into()],
        extra: json!({"exhaustive_subdomains": ["all 16 subsets of the vulnerability patterns"]}),
        floors: vec![("vulnerability subsets covered".into(), subsets, 16)],
    };
    finish(env, st, meta)
}
