//! C13 — the report is a deterministic function of the set of findings.
//!
//! Library level: k renderings of the same findings set, each from a fresh
//! `HashMap` (fresh hasher keys) filled in a different insertion order with the
//! per-pattern file vectors permuted, must be byte-identical.
//! Binary level: the same tree content created in two different orders, run in
//! separate processes, must give byte-identical reports.

use crate::engine::*;
use crate::gen::findings::{self, Findings};
use crate::gen::tree::{self, Entry, Kind, Scratch};
use crate::props::c11::CATEGORIES;
use crate::props::e2e;
use crate::tape::Tape;
use proptest::prelude::*;
use serde_json::{json, Value};

const K: usize = 6;

fn permute(f: &Findings, seed: u64) -> Findings {
    // deterministic shuffles driven by a tape made from the seed
    let bytes: Vec<u8> = (0..64u64).map(|i| (fnv(&(seed, i)) >> 13) as u8).collect();
    let mut t = Tape::new(&bytes);
    let perm = t.permutation(f.len());
    perm.into_iter()
        .map(|i| {
            let (n, files) = &f[i];
            let p2 = t.permutation(files.len());
            (n.clone(), p2.into_iter().map(|j| files[j].clone()).collect())
        })
        .collect()
}

pub fn check_lib(check: &str, category: &str, f: &Findings, seeds: &[u64], st: &mut Stats) -> Vec<Violation> {
    let case = json!({"category": category, "findings": findings::to_json(f), "seeds": seeds});
    let multi_pattern = f.len() >= 2;
    let multi_file = f.iter().any(|(_, files)| files.len() >= 2);
    if multi_pattern || multi_file {
        st.nontrivial(&(category, format!("{:?}", f)));
    }
    if multi_pattern {
        st.count("sets_with_two_or_more_patterns");
    }
    if multi_file {
        st.count("sets_with_two_or_more_files_under_a_pattern");
    }
    let mut first: Option<String> = None;
    let mut pattern_order_differs = false;
    for s in seeds.iter().take(K) {
        let g = permute(f, *s);
        st.evaluations += 1;
        let text = match catch(|| findings::render(category, &g)) {
            Ok(t) => t,
            Err(site) => return vec![Violation::new(check, format!("panic:{site}"), "renderer panicked", case)],
        };
        match &first {
            None => first = Some(text),
            Some(a) => {
                if *a != text {
                    // root cause: pattern (hash map) order or file (discovery) order?
                    let pa = crate::refmodel::report::parse_report(a);
                    let pb = crate::refmodel::report::parse_report(&text);
                    if pa.sections != pb.sections {
                        pattern_order_differs = true;
                    }
                    let sig = if pattern_order_differs { format!("{category}:section-order-depends-on-map") } else { format!("{category}:file-order-depends-on-discovery") };
                    return vec![Violation::new(check, sig, "two renderings of the same findings set differ byte-wise", case)];
                }
            }
        }
    }
    vec![]
}

fn reorder(entries: &[Entry], t: &mut Tape) -> Vec<Entry> {
    let perm = t.permutation(entries.len());
    perm.into_iter()
        .map(|i| {
            let e = &entries[i];
            match &e.kind {
                Kind::Dir(c) => Entry { name: e.name.clone(), class: e.class, kind: Kind::Dir(reorder(c, t)) },
                Kind::Link(c) => Entry { name: e.name.clone(), class: e.class, kind: Kind::Link(reorder(c, t)) },
                _ => e.clone(),
            }
        })
        .collect()
}

pub fn binary_case(env: &Env, tape: &[u8], st: &mut Stats) -> Vec<Violation> {
    let mut t = Tape::new(tape);
    let mut skipped = 0;
    let spec = tree::gen_tree(&mut t, &tree::TreeCfg { inert: 30, ..Default::default() }, &mut skipped);
    // the creation and configuration orders come from a tape of their own, derived from the whole
    // input: the tree generator may have used the input up, and an exhausted tape only yields
    // identity permutations
    let bytes: Vec<u8> = (0..96u64).map(|i| (fnv(&(tape, i)) >> 17) as u8).collect();
    let mut t2 = Tape::new(&bytes);
    check_binary_spec(env, &spec, &mut t2, st)
}

fn check_binary_spec(env: &Env, spec: &[Entry], t: &mut Tape, st: &mut Stats) -> Vec<Violation> {
    let mut files = Vec::new();
    tree::eligible_files(spec, "", &mut files);
    let case = json!({"tree": tree::to_json(spec)});
    let mut reports: Vec<Vec<u8>> = Vec::new();
    let mut listing_orders = std::collections::BTreeSet::new();
    for round in 0..4 {
        let variant = if round == 0 { spec.to_vec() } else { reorder(spec, t) };
        let sc = Scratch::new("c13");
        let root = sc.path.join("tree");
        let cwd = sc.path.join("cwd");
        std::fs::create_dir_all(&root).unwrap();
        std::fs::create_dir_all(&cwd).unwrap();
        tree::materialize(&variant, &root);
        let listed: Vec<String> = std::fs::read_dir(&root).map(|rd| rd.filter_map(|e| e.ok()).map(|e| e.file_name().to_string_lossy().to_string()).collect()).unwrap_or_default();
        listing_orders.insert(listed.join("|"));
        let out = e2e::run_solstat(env, &cwd, &["--path", root.to_str().unwrap()]);
        st.count("binary_runs");
        st.evaluations += 1;
        if out.code != Some(0) {
            st.count("discarded_binary_failed_(C04/C16_domain)");
            return vec![];
        }
        match out.report {
            Some(r) => reports.push(r),
            None => return vec![],
        }
    }
    if listing_orders.len() > 1 {
        st.count("trees_run_under_different_listing_orders");
        if files.len() >= 2 {
            st.nontrivial(&format!("{:?}", case));
        }
    }
    for r in &reports[1..] {
        if *r != reports[0] {
            let pa = crate::refmodel::report::parse_report(&String::from_utf8_lossy(&reports[0]));
            let pb = crate::refmodel::report::parse_report(&String::from_utf8_lossy(r));
            let sig = if pa.sections != pb.sections { "binary:section-order-differs-between-runs" } else { "binary:entries-differ-between-runs" };
            return vec![Violation::new("c13-binary", sig, "two runs over the same directory content produced different reports", case)];
        }
    }
    // configuration order: the same selection (possibly naming a pattern twice) in two orders
    {
        let all = crate::patterns::all();
        let mut sel: Vec<&'static str> = all.iter().filter(|_| t.chance(120)).map(|p| p.name).collect();
        if sel.len() >= 2 && t.chance(110) {
            let dup = sel[t.below(sel.len())];
            sel.push(dup);
        }
        if sel.len() >= 2 {
            let sc = Scratch::new("c13cfg");
            let root = sc.path.join("tree");
            std::fs::create_dir_all(&root).unwrap();
            tree::materialize(spec, &root);
            let mut outs: Vec<Vec<u8>> = Vec::new();
            let mut orders: Vec<Vec<&str>> = Vec::new();
            for round in 0..3 {
                let perm = if round == 0 { (0..sel.len()).collect::<Vec<_>>() } else { t.permutation(sel.len()) };
                let order: Vec<&str> = perm.iter().map(|i| sel[*i]).collect();
                let list = |cat: &str| order.iter().filter(|n| crate::patterns::by_name(n).map(|p| p.category() == cat).unwrap_or(false)).map(|n| format!("\"{n}\"")).collect::<Vec<_>>().join(", ");
                let cwd = sc.path.join(format!("cwd{round}"));
                std::fs::create_dir_all(&cwd).unwrap();
                std::fs::write(cwd.join("cfg.toml"), format!("path = '{}'\noptimizations = [{}]\nvulnerabilities = [{}]\nqa = [{}]\n", root.display(), list("optimizations"), list("vulnerabilities"), list("qa"))).unwrap();
                let out = e2e::run_solstat(env, &cwd, &["--toml", "cfg.toml", "--path", root.to_str().unwrap()]);
                st.count("binary_runs_with_configuration");
                st.evaluations += 1;
                if out.code != Some(0) {
                    return vec![];
                }
                outs.push(out.report.unwrap_or_default());
                orders.push(order);
            }
            if orders.iter().any(|o| *o != orders[0]) {
                st.count("trees_run_under_different_configuration_orders");
            }
            for (k, o) in outs.iter().enumerate().skip(1) {
                if *o != outs[0] {
                    return vec![Violation::new(
                        "c13-binary",
                        "binary:report-depends-on-configuration-order",
                        format!("the same pattern selection configured as {:?} and as {:?} produced different reports", orders[0], orders[k]),
                        json!({"tree": tree::to_json(spec), "orders": [orders[0], orders[k]]}),
                    )];
                }
            }
        }
    }
    vec![]
}

pub fn replay(env: &Env, check: &str, case: &Value, st: &mut Stats) -> Vec<Violation> {
    if let Some(tr) = case.get("tree") {
        let spec = tree::from_json(tr);
        let bytes = [7u8, 99, 180, 33, 250, 120, 5, 77, 201, 14, 160, 90, 44, 230, 10, 66];
        let mut t = Tape::new(&bytes);
        return check_binary_spec(env, &spec, &mut t, st);
    }
    let cat = case.get("category").and_then(|c| c.as_str()).unwrap_or("optimizations").to_string();
    let cat: &str = CATEGORIES.iter().find(|c| **c == cat).copied().unwrap_or("optimizations");
    let f = findings::from_json(case.get("findings").unwrap_or(&Value::Null));
    let seeds: Vec<u64> = case.get("seeds").and_then(|s| s.as_array()).map(|a| a.iter().filter_map(|x| x.as_u64()).collect()).unwrap_or_else(|| (1..=K as u64).collect());
    // hasher keys differ per process: repeat a few times
    let mut out = Vec::new();
    for rep in 0..20u64 {
        let s2: Vec<u64> = seeds.iter().map(|s| s.wrapping_add(rep * 1000)).collect();
        out = check_lib(check, cat, &f, &s2, st);
        if !out.is_empty() {
            break;
        }
    }
    out
}

pub fn run(env: &Env) -> i32 {
    let mut st = Stats::default();
    for (name, check, case) in regression_cases(env) {
        st.count("regressions_replayed");
        let vs = replay(env, &check, &case, &mut st);
        let vs = filter_known(env, &mut st, vs);
        if !vs.is_empty() {
            eprintln!("regression {name} fails");
        }
        st.violations.extend(vs);
    }
    for cat in CATEGORIES {
        let name = format!("c13-{cat}");
        value_stream(env, &mut st, &name, env.tier.n(20_000, 400_000), || (findings::findings(cat, 1), proptest::collection::vec(any::<u64>(), K)), |(f, seeds): &(Findings, Vec<u64>), s| {
            s.sample(1, || json!({"category": cat, "findings": findings::to_json(f), "seeds": seeds}));
            check_lib(&name, cat, f, seeds, s)
        });
    }
    if env.solstat_bin().exists() {
        tape_stream(env, &mut st, "c13-binary", env.tier.n(200, 3000), 600, |tape, s| binary_case(env, tape, s));
    } else {
        st.harness_errors.push("solstat binary not built".into());
    }
    // creation order only changes the listing order on file systems that list in (reverse) creation
    // order, such as tmpfs; elsewhere that floor cannot be met and is not demanded
    let on_tmpfs = tree::scratch_base() == std::path::Path::new("/dev/shm");
    let listing_floor = if on_tmpfs { 5 } else { 0 };
    let meta = Meta {
        rule: "library: (findings set, 6 permutation seeds) -> 6 renderings from fresh HashMaps with permuted insertion order and permuted file vectors, all must be byte-identical; binary: the same tree content created in 4 different orders (different listing orders on tmpfs) and run in 4 separate processes, reports must be byte-identical; non-trivial = >= 2 patterns in the category or >= 2 files under a pattern (library), >= 2 eligible files and >= 2 distinct observed listing orders (binary)".into(),
        assumptions: vec![
            "per-process hash seeds are sampled (each run of the binary is a fresh process; each library rendering uses a fresh RandomState)".into(),
            format!("scratch trees on tmpfs (/dev/shm): {on_tmpfs}; only there does the creation order change the listing order, which is what the binary-level discovery-order cases rely on"),
        ],
        extra: json!({}),
        floors: vec![
            ("sets with >= 2 patterns".into(), st.counters.get("sets_with_two_or_more_patterns").copied().unwrap_or(0), 500),
            ("sets with >= 2 files under a pattern".into(), st.counters.get("sets_with_two_or_more_files_under_a_pattern").copied().unwrap_or(0), 500),
            ("trees run under different listing orders".into(), st.counters.get("trees_run_under_different_listing_orders").copied().unwrap_or(0), listing_floor),
            ("trees run under different configuration orders".into(), st.counters.get("trees_run_under_different_configuration_orders").copied().unwrap_or(0), 5),
        ],
    };
    finish(env, st, meta)
}
