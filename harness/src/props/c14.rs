//! C14 — configuration selects exactly the named patterns and the named directory.

use crate::engine::*;
use crate::gen::tree::{self, Entry, Kind, Scratch};
use crate::patterns::{self, Pat, P};
use crate::props::e2e;
use crate::refmodel::report::parse_report;
use crate::tape::Tape;
use serde_json::{json, Value};
use solstat::analyzer::{optimizations, qa, vulnerabilities};
use std::collections::{BTreeMap, BTreeSet};

/// Documented names per category, read at check time from the repository's docs and sample toml.
pub fn documented(env: &Env) -> BTreeMap<&'static str, BTreeSet<String>> {
    let mut m: BTreeMap<&'static str, BTreeSet<String>> = BTreeMap::new();
    for (cat, file) in [("optimizations", "docs/identified-optimizations.md"), ("vulnerabilities", "docs/identified-vulnerabilities.md"), ("qa", "docs/identified-quality-assurance.md")] {
        let set = m.entry(cat).or_default();
        if let Ok(txt) = std::fs::read_to_string(env.repo.join(file)) {
            for line in txt.lines() {
                let l = line.trim();
                if let Some(rest) = l.strip_prefix('|') {
                    let first = rest.split('|').next().unwrap_or("").trim();
                    // a name cell: lower-case identifier (the header cells are capitalised, the rule cells are dashes)
                    if first.chars().next().map(|c| c.is_ascii_lowercase()).unwrap_or(false) && first.chars().all(|c| c.is_ascii_lowercase() || c.is_ascii_digit() || c == '_') {
                        set.insert(first.to_string());
                    }
                }
            }
        }
    }
    if let Ok(txt) = std::fs::read_to_string(env.repo.join("Solstat.toml")) {
        // tiny reader for `key = [ "a", "b" ]` possibly spanning lines
        for (cat, key) in [("optimizations", "optimizations"), ("vulnerabilities", "vulnerabilities"), ("qa", "qa")] {
            if let Some(i) = txt.find(&format!("\n{key} =")) {
                let rest = &txt[i..];
                if let (Some(a), Some(b)) = (rest.find('['), rest.find(']')) {
                    for part in rest[a + 1..b].split(',') {
                        let n = part.trim().trim_matches('"').trim_matches('\'').trim();
                        if !n.is_empty() {
                            m.entry(cat).or_default().insert(n.to_string());
                        }
                    }
                }
            }
        }
    }
    m
}

fn recase(name: &str, mask: u64) -> String {
    name.chars().enumerate().map(|(i, c)| if mask >> (i % 64) & 1 == 1 { c.to_ascii_uppercase() } else { c.to_ascii_lowercase() }).collect()
}

fn str_to(cat: &str, name: &str) -> Result<Pat, String> {
    let n = name.to_string();
    match cat {
        "optimizations" => catch(move || Pat::Opt(optimizations::str_to_optimization(&n))),
        "vulnerabilities" => catch(move || Pat::Vuln(vulnerabilities::str_to_vulnerability(&n))),
        _ => catch(move || Pat::Qa(qa::str_to_qa(&n))),
    }
}

fn library_level(env: &Env, st: &mut Stats) -> Vec<Violation> {
    let mut out = Vec::new();
    let docs = documented(env);
    for (cat, names) in &docs {
        let mut image: BTreeMap<String, String> = BTreeMap::new();
        for name in names {
            st.mark(&format!("documented_{cat}"), name);
            let mut masks: Vec<u64> = vec![0, u64::MAX, 1];
            for k in 0..12u64 {
                masks.push(fnv(&(env.seed, name, k)));
            }
            for mask in masks {
                let cased = recase(name, mask);
                st.evaluations += 1;
                if cased != *name && cased != name.to_uppercase() {
                    st.nontrivial(&(cat, &cased));
                }
                match str_to(cat, &cased) {
                    Ok(p) => {
                        let key = format!("{:?}", p);
                        if let Some(prev) = image.get(&key) {
                            if prev != name {
                                out.push(Violation::new("names", format!("{cat}:two-names-one-pattern:{name}"), format!("documented names '{prev}' and '{name}' select the same pattern {key}"), json!({"category": cat, "names": [prev, name]})));
                            }
                        } else {
                            image.insert(key.clone(), name.clone());
                        }
                        // the selected pattern must be the one of that name (hand-written table)
                        if let Some(tp) = patterns::by_name(name) {
                            if tp.pat != p {
                                out.push(Violation::new("names", format!("{cat}:name-selects-other-pattern:{name}"), format!("'{cased}' selects {key}, expected the pattern documented as {name}"), json!({"category": cat, "name": cased})));
                            }
                        }
                    }
                    Err(_) => {
                        let kind = if mask == 0 { "documented-name-rejected" } else { "letter-case-rejected" };
                        out.push(Violation::new("names", format!("{cat}:{kind}:{name}"), format!("documented name '{name}' written as '{cased}' is not accepted in a configuration"), json!({"category": cat, "name": cased})));
                        break;
                    }
                }
            }
        }
        // every default pattern is selectable by a documented name
        let defaults: Vec<Pat> = match *cat {
            "optimizations" => optimizations::get_all_optimizations().into_iter().map(Pat::Opt).collect(),
            "vulnerabilities" => vulnerabilities::get_all_vulnerabilities().into_iter().map(Pat::Vuln).collect(),
            _ => qa::get_all_qa().into_iter().map(Pat::Qa).collect(),
        };
        for d in &defaults {
            st.evaluations += 1;
            if !image.contains_key(&format!("{:?}", d)) {
                out.push(Violation::new("names", format!("{cat}:default-pattern-without-documented-name:{:?}", d), format!("{:?} runs by default but no documented name selects it", d), json!({"category": cat})));
            }
        }
        // the default list holds every pattern of the category ("without [a configuration] all patterns are [analysed]")
        let all_of_cat: Vec<P> = patterns::all().into_iter().filter(|p| p.category() == *cat).collect();
        for p in &all_of_cat {
            let n = defaults.iter().filter(|d| **d == p.pat).count();
            if n < 1 {
                out.push(Violation::new("names", format!("{cat}:default-list:{}", p.name), format!("{} appears {} times in the default pattern list", p.name, n), json!({"category": cat})));
            }
        }
        // unknown names are rejected
        // (names that differ from a documented one only by surrounding blanks are left undecided)
        let mut unknown: Vec<String> = vec!["".into(), "unknown_pattern".into(), "all".into(), "*".into()];
        for name in names.iter().take(40) {
            unknown.push(name[..name.len() - 1].to_string());
            unknown.push(format!("{name}s"));
            unknown.push(name.replace('_', "-"));
            unknown.push(name.replace('_', ""));
        }
        for (other, onames) in &docs {
            if other != cat {
                unknown.extend(onames.iter().cloned());
            }
        }
        for u in unknown {
            if names.contains(&u.to_lowercase()) {
                continue;
            }
            st.evaluations += 1;
            st.count("unknown_names_tried");
            if let Ok(p) = str_to(cat, &u) {
                out.push(Violation::new("names", format!("{cat}:unknown-name-accepted"), format!("unknown name {:?} is accepted as {:?}", u, p), json!({"category": cat, "name": u})));
            }
        }
    }
    out
}

/// A corpus in which (ideally) all 30 patterns fire.
pub fn corpus(marker: &str) -> Vec<Entry> {
    let mut v = Vec::new();
    for (i, p) in tree::POOL.iter().enumerate() {
        v.push(Entry { name: format!("{marker}{i}.sol"), kind: Kind::File(p.as_bytes().to_vec()), class: "eligible" });
    }
    let extra = "pragma solidity ^0.8.4 ;\ncontract X {\nuint256 public neverWritten ;\nuint256 assignedOnce ;\nuint256 private plain ;\nfunction g ( string memory s , uint256 [ ] memory arr ) public {\narr [ 0 ] = arr [ 0 ] + 1 ;\nrequire ( arr . length > 0 , \"msg\" ) ;\nplain = 2 ;\n}\nconstructor ( uint256 v ) { assignedOnce = v ; }\nfunction bad ( ) internal { }\nfunction kill ( ) public { selfdestruct ( payable ( msg . sender ) ) ; }\n}\n";
    v.push(Entry { name: format!("{marker}X.sol"), kind: Kind::File(extra.as_bytes().to_vec()), class: "eligible" });
    let extra2 = "pragma solidity 0.7.6 ;\nusing SafeMath for uint256 ;\ncontract Y {\nfunction f ( uint256 a ) public returns ( uint256 ) {\nrequire ( a > 0 , \"a string that is at least thirty-two bytes long\" ) ;\nreturn a . add ( 1 ) ;\n}\n}\n";
    v.push(Entry { name: format!("{marker}Y.sol"), kind: Kind::File(extra2.as_bytes().to_vec()), class: "eligible" });
    // a nested directory: the selection must hold at every depth
    let nested: Vec<Entry> = tree::POOL.iter().enumerate().take(3).map(|(i, p)| Entry { name: format!("{marker}N{i}.sol"), kind: Kind::File(p.as_bytes().to_vec()), class: "eligible" }).collect();
    v.push(Entry { name: "Nested".into(), kind: Kind::Dir(vec![Entry { name: "Deeper".into(), kind: Kind::Dir(nested), class: "directory" }, Entry { name: format!("{marker}M.sol"), kind: Kind::File(tree::POOL[1].as_bytes().to_vec()), class: "eligible" }]), class: "directory" });
    v
}

fn firing_in(entries: &[Entry]) -> BTreeSet<&'static str> {
    let mut files = Vec::new();
    tree::eligible_files(entries, "", &mut files);
    let mut s = BTreeSet::new();
    for (_, _, text) in &files {
        for p in patterns::all() {
            if catch(|| p.analyze(text, 0)).map(|l| !l.is_empty()).unwrap_or(false) {
                s.insert(p.name);
            }
        }
    }
    s
}

struct BinCase {
    /// 0 = `--path ./FromArg`; 1 = the explicit spelling of the default, `--path ./contracts`; 2 = `-p ./FromArg`;
    /// 3 = `--path ./` (the working directory itself, i.e. all marker directories); 4 = `--path ~FromArg` (a
    /// directory whose name starts with a tilde, spelled bare); 5 = `--path FromArg/` (bare, trailing slash)
    path_style: u8,
    /// seed for the creation (hence listing) order of the corpus files
    order_seed: u64,
    use_path: bool,
    use_toml: bool,
    have_contracts: bool,
    /// selected names per category as written in the toml (None = no toml)
    selected: Vec<(String, String)>,
    unknown: Option<(String, String)>,
    /// the configuration file names a directory that does not exist
    toml_path_missing: bool,
    /// the configuration file names `~FromToml` (a directory whose name starts with a tilde, spelled bare)
    toml_tilde: bool,
}

fn toml_text(path: &str, sel: &[(String, String)], unknown: &Option<(String, String)>) -> String {
    let list = |cat: &str| {
        let mut v: Vec<String> = sel.iter().filter(|(c, _)| c == cat).map(|(_, n)| format!("\"{n}\"")).collect();
        if let Some((c, n)) = unknown {
            if c == cat {
                v.push(format!("\"{n}\""));
            }
        }
        v.join(", ")
    };
    format!("path = '{path}'\noptimizations = [{}]\nvulnerabilities = [{}]\nqa = [{}]\n", list("optimizations"), list("vulnerabilities"), list("qa"))
}

fn binary_case(env: &Env, tape: &[u8], st: &mut Stats) -> Vec<Violation> {
    let mut t = Tape::new(tape);
    let docs = documented(env);
    let mut c = BinCase { path_style: *t.pick(&[0u8, 1, 2, 0, 1, 2, 3, 4, 5]), order_seed: t.u64(), use_path: t.chance(128), use_toml: t.chance(170), have_contracts: t.chance(150), selected: vec![], unknown: None, toml_path_missing: false, toml_tilde: false };
    if c.path_style == 1 {
        c.have_contracts = true;
    }
    if c.use_toml {
        for (cat, names) in &docs {
            for n in names {
                if patterns::by_name(n).is_none() {
                    continue; // a documented name the code base has no pattern for is reported by the library-level check
                }
                if t.chance(110) {
                    let mask = if t.chance(100) { t.u64() } else { 0 };
                    c.selected.push((cat.to_string(), recase(n, mask)));
                }
            }
        }
        let perm = t.permutation(c.selected.len());
        c.selected = perm.into_iter().map(|i| c.selected[i].clone()).collect();
        if t.chance(50) {
            let cat = *t.pick(&["optimizations", "vulnerabilities", "qa"]);
            let n = *t.pick(&["unknown_pattern", "", "sstores", "address_zer", "floating-pragma", "constructor_orders"]);
            // a name of another category is unknown here
            c.unknown = Some((cat.to_string(), n.to_string()));
        }
        c.toml_path_missing = t.chance(40);
        c.toml_tilde = !c.toml_path_missing && t.chance(40);
    }
    run_bin_case(env, &c, st)
}

fn run_bin_case(env: &Env, c: &BinCase, st: &mut Stats) -> Vec<Violation> {
    let sc = Scratch::new("c14");
    let w = sc.path.join("w");
    std::fs::create_dir_all(&w).unwrap();
    let mut dirs = vec![("contracts", "DefaultDir"), ("FromToml", "TomlDir"), ("FromArg", "ArgDir")];
    if c.use_path && c.path_style == 4 {
        dirs.push(("~FromArg", "TildeArgDir"));
    }
    if c.use_toml && c.toml_tilde {
        dirs.push(("~FromToml", "TildeTomlDir"));
    }
    let mut present: Vec<&str> = Vec::new();
    for (d, marker) in dirs {
        if d == "contracts" && !c.have_contracts {
            continue;
        }
        present.push(marker);
        let p = w.join(d);
        std::fs::create_dir_all(&p).unwrap();
        // creation order (= reverse listing order on tmpfs) of the corpus files from the case
        let mut files = corpus(marker);
        let bytes: Vec<u8> = (0..64u64).map(|i| (fnv(&(c.order_seed, i)) >> 11) as u8).collect();
        let mut ot = Tape::new(&bytes);
        let perm = ot.permutation(files.len());
        files = perm.into_iter().map(|i| files[i].clone()).collect();
        tree::materialize(&files, &p);
    }
    let fire = firing_in(&corpus("M"));
    let toml_file = w.join("cfg.toml");
    if c.use_toml {
        std::fs::write(&toml_file, toml_text(if c.toml_path_missing { "./Missing" } else if c.toml_tilde { "~FromToml" } else { "./FromToml" }, &c.selected, &c.unknown)).unwrap();
    }
    let mut args: Vec<&str> = Vec::new();
    if c.use_path {
        match c.path_style {
            1 => {
                args.push("--path");
                args.push("./contracts");
            }
            2 => {
                args.push("-p");
                args.push("./FromArg");
            }
            3 => {
                args.push("--path");
                args.push("./");
            }
            4 => {
                args.push("--path");
                args.push("~FromArg");
            }
            5 => {
                args.push("--path");
                args.push("FromArg/");
            }
            _ => {
                args.push("--path");
                args.push("./FromArg");
            }
        }
    }
    if c.use_toml {
        args.push("--toml");
        args.push("cfg.toml");
    }
    let out = e2e::run_solstat(env, &w, &args);
    st.count("binary_runs");
    st.evaluations += 1;
    st.mark("path_toml_contracts_combinations", &format!("path={} toml={} contracts={}", c.use_path, c.use_toml, c.have_contracts));
    st.sample(4, || json!({"args": args, "toml": if c.use_toml { Some(toml_text("./FromToml", &c.selected, &c.unknown)) } else { None }, "have_contracts_dir": c.have_contracts}));
    let case = json!({"path_style": c.path_style, "order_seed": c.order_seed, "use_path": c.use_path, "use_toml": c.use_toml, "have_contracts": c.have_contracts, "selected": c.selected, "unknown": c.unknown, "toml_path_missing": c.toml_path_missing, "toml_tilde": c.toml_tilde});
    let mixed_case = c.selected.iter().any(|(_, n)| n.chars().any(|ch| ch.is_ascii_uppercase()));
    let cats: BTreeSet<&String> = c.selected.iter().map(|(c, _)| c).collect();
    if mixed_case || cats.len() >= 2 || (c.use_toml && c.have_contracts) || (c.use_path && c.use_toml) {
        st.nontrivial(&format!("{:?}", case));
    }
    // unknown name: non-zero exit, no report
    if c.unknown.is_some() {
        st.count("runs_with_unknown_name");
        if out.code == Some(0) {
            return vec![Violation::new("binary", "unknown-name:exit-status-zero", "a configuration with an unknown pattern name ends with exit status 0", case)];
        }
        if out.report.is_some() {
            return vec![Violation::new("binary", "unknown-name:report-written", "a report was written although the configuration names an unknown pattern", case)];
        }
        return vec![];
    }
    // the configuration names a directory that does not exist and no --path overrides it: how the run
    // ends is not stated, but it must not fall back to some other directory
    if c.use_toml && !c.use_path && c.toml_path_missing {
        st.count("runs_with_missing_configured_directory");
        if out.code == Some(0) {
            let report = String::from_utf8_lossy(&out.report.unwrap_or_default()).to_string();
            let parsed = parse_report(&report);
            if let Some(e) = parsed.entries.first() {
                return vec![Violation::new("binary", "directory:configured-directory-missing-but-another-analysed", format!("the configuration names ./Missing (absent), yet the report lists findings, e.g. in {}", e.file), case)];
            }
        }
        return vec![];
    }
    // which directory must have been analysed
    let expect_marker: Option<Vec<&str>> = if c.use_path && c.path_style == 1 {
        Some(vec!["DefaultDir"])
    } else if c.use_path && c.path_style == 3 {
        Some(present.clone())
    } else if c.use_path && c.path_style == 4 {
        Some(vec!["TildeArgDir"])
    } else if c.use_path {
        Some(vec!["ArgDir"])
    } else if c.use_toml && c.toml_tilde {
        Some(vec!["TildeTomlDir"])
    } else if c.use_toml {
        Some(vec!["TomlDir"])
    } else if c.have_contracts {
        Some(vec!["DefaultDir"])
    } else {
        None
    };
    let expect_marker = match expect_marker {
        Some(m) => m,
        None => {
            // nothing to analyse (no --path, no configuration, no ./contracts): the property does not say
            // how such a run ends, only that no other directory may be analysed instead
            st.count("runs_without_any_directory");
            if out.code == Some(0) {
                let report = String::from_utf8_lossy(&out.report.unwrap_or_default()).to_string();
                if !parse_report(&report).entries.is_empty() {
                    return vec![Violation::new("binary", "directory:wrong-directory", "no --path, no configuration and no ./contracts, yet the report lists findings", case)];
                }
            }
            return vec![];
        }
    };
    if out.code != Some(0) && c.use_toml && c.toml_path_missing {
        // --path overrides the configured directory, but a tool may still refuse a configuration that
        // names a directory which does not exist: how such a run ends is not stated
        st.count("runs_refused_because_of_a_missing_configured_directory");
        return vec![];
    }
    if out.code != Some(0) {
        let kind = if !c.use_path && c.use_toml { "toml-path" } else { "other" };
        return vec![Violation::new("binary", format!("directory:run-fails:{kind}"), format!("solstat exits with {:?} although the directory to analyse exists: {}", out.code, out.stderr), case)];
    }
    let report = String::from_utf8_lossy(&out.report.unwrap_or_default()).to_string();
    let parsed = parse_report(&report);
    let markers: BTreeSet<&str> = parsed.entries.iter().map(|e| if e.file.starts_with("TildeArgDir") { "TildeArgDir" } else if e.file.starts_with("TildeTomlDir") { "TildeTomlDir" } else if e.file.starts_with("ArgDir") { "ArgDir" } else if e.file.starts_with("TomlDir") { "TomlDir" } else if e.file.starts_with("DefaultDir") { "DefaultDir" } else { "?" }).collect();
    // expected sections
    let selected: BTreeSet<&'static str> = if c.use_toml { c.selected.iter().filter_map(|(_, n)| patterns::by_name(&n.to_lowercase()).map(|p| p.name)).collect() } else { patterns::all().iter().map(|p| p.name).collect() };
    let expected: BTreeSet<&'static str> = selected.intersection(&fire).copied().collect();
    let got: BTreeSet<&str> = parsed.sections.iter().map(|s| s.as_str()).collect();
    if !expected.is_empty() && markers != expect_marker.iter().copied().collect() {
        let kind = if !c.use_path && c.use_toml { "toml-path-ignored" } else if c.path_style == 1 { "explicit-default-path-ignored" } else { "wrong-directory" };
        return vec![Violation::new("binary", format!("directory:{kind}"), format!("the report names files of {:?}, the directory to analyse was that of {:?}", markers, expect_marker), case)];
    }
    let got_owned: BTreeSet<String> = got.iter().map(|s| s.to_string()).collect();
    let exp_owned: BTreeSet<String> = expected.iter().map(|s| s.to_string()).collect();
    if got_owned != exp_owned {
        let missing: Vec<_> = exp_owned.difference(&got_owned).take(4).collect();
        let extra: Vec<_> = got_owned.difference(&exp_owned).take(4).collect();
        let kind = if !extra.is_empty() { "pattern-not-selected-but-analysed" } else { "selected-pattern-not-analysed" };
        return vec![Violation::new("binary", format!("selection:{kind}:{}", if c.use_toml { "toml" } else { "default" }), format!("pattern sections in the report differ from selected ∩ firing: missing {:?}, extra {:?}", missing, extra), case)];
    }
    vec![]
}

pub fn replay(env: &Env, check: &str, case: &Value, st: &mut Stats) -> Vec<Violation> {
    if check == "names" {
        return library_level(env, st);
    }
    let sel: Vec<(String, String)> = case
        .get("selected")
        .and_then(|s| s.as_array())
        .map(|a| a.iter().filter_map(|p| p.as_array().and_then(|p| Some((p.get(0)?.as_str()?.to_string(), p.get(1)?.as_str()?.to_string())))).collect())
        .unwrap_or_default();
    let unknown = case.get("unknown").and_then(|u| u.as_array()).and_then(|p| Some((p.get(0)?.as_str()?.to_string(), p.get(1)?.as_str()?.to_string())));
    let c = BinCase {
        path_style: case.get("path_style").and_then(|b| b.as_u64()).unwrap_or(0) as u8,
        order_seed: case.get("order_seed").and_then(|b| b.as_u64()).unwrap_or(0),
        use_path: case.get("use_path").and_then(|b| b.as_bool()).unwrap_or(false),
        use_toml: case.get("use_toml").and_then(|b| b.as_bool()).unwrap_or(false),
        have_contracts: case.get("have_contracts").and_then(|b| b.as_bool()).unwrap_or(true),
        selected: sel,
        unknown,
        toml_path_missing: case.get("toml_path_missing").and_then(|b| b.as_bool()).unwrap_or(false),
        toml_tilde: case.get("toml_tilde").and_then(|b| b.as_bool()).unwrap_or(false),
    };
    run_bin_case(env, &c, st)
}

pub fn run(env: &Env) -> i32 {
    let mut st = Stats::default();
    for (name, check, case) in regression_cases(env) {
        st.count("regressions_replayed");
        let vs = replay(env, &check, &case, &mut st);
        let vs = filter_known(env, &mut st, vs);
        if !vs.is_empty() {
            eprintln!("regression {name} fails");
        }
        st.violations.extend(vs);
    }
    let vs = library_level(env, &mut st);
    let vs = filter_known(env, &mut st, vs);
    st.violations.extend(vs);
    let fire = firing_in(&corpus("M"));
    if env.solstat_bin().exists() {
        tape_stream(env, &mut st, "binary", env.tier.n(600, 15_000), 400, |tape, s| binary_case(env, tape, s));
    } else {
        st.harness_errors.push("solstat binary not built".into());
    }
    let docs = documented(env);
    st.samples.push(json!({"documented_names": docs}));
    let meta = Meta {
        rule: "library level: every documented name (read from docs/identified-*.md and Solstat.toml at check time) in lower / UPPER / 13 random per-character casings must be accepted and select the pattern of that name, distinct names distinct patterns, every default pattern has a documented name, near-miss and foreign-category names are rejected; binary level: generated configurations (subsets, orders and casings of names per category, optional unknown name, presence of --path / --toml / ./contracts) on three marker directories holding a corpus in which the patterns fire; oracle = exit status, absence of a report on unknown names, analysed directory (--path, else the toml path, else ./contracts) identified by marker file names, and pattern sections = selected ∩ firing; non-trivial = mixed-case name, >= 2 categories selected, or >= 2 candidate directories present".into(),
        assumptions: vec!["the corpus' firing set is computed by per-file library analysis".into()],
        extra: json!({"patterns_firing_in_corpus": fire.len()}),
        floors: vec![
            ("patterns firing in the corpus".into(), fire.len() as u64, 28),
            ("path/toml/contracts combinations".into(), st.sets.get("path_toml_contracts_combinations").map(|s| s.len()).unwrap_or(0) as u64, 8),
            ("runs with an unknown name".into(), st.counters.get("runs_with_unknown_name").copied().unwrap_or(0), 5),
        ],
    };
    finish(env, st, meta)
}
