//! C15 — each (file, pattern) verdict is independent of everything else in the run.
//!
//! Histories of library calls (per-file analyses with varying file numbers,
//! directory analyses with varying siblings / positions / pattern selections,
//! repetitions), then the probe call; plus a concurrent stress phase.  Oracle:
//! the lines for (file, pattern) always equal the baseline of a single call.

use crate::engine::*;
use crate::gen::program;
use crate::gen::tree::{self, Entry, Kind, Scratch};
use crate::patterns::{self, P};
use crate::props::c03;
use crate::tape::Tape;
use serde_json::{json, Value};
use std::collections::BTreeSet;

fn pool(t: &mut Tape) -> (Vec<String>, Vec<Option<usize>>) {
    let mut v: Vec<String> = tree::POOL.iter().map(|s| s.to_string()).collect();
    // files that share state-variable names / differ in version and SafeMath usage
    v.push("pragma solidity 0.7.0 ;\nusing SafeMath for uint256 ;\ncontract P { uint256 total ; address owner ; function f ( uint256 a ) public { total = a . add ( 1 ) ; require ( a > 0 , \"a message that is longer than thirty-two bytes in total\" ) ; } }\n".into());
    v.push("pragma solidity 0.8.9 ;\ncontract P { uint256 total ; address owner ; constructor ( ) { owner = msg . sender ; } function f ( uint256 a ) public { require ( a > 0 , \"a message that is longer than thirty-two bytes in total\" ) ; } }\n".into());
    let cfg = program::GenCfg { plant: 130, max_items: 3, ..Default::default() };
    for _ in 0..3 {
        let p = program::gen_program(t, &cfg);
        if crate::parse(&p).is_some() {
            v.push(p);
        }
    }
    // equal-length twins: same byte length, different content and (mostly) different findings —
    // anything that identifies a file by less than its content confuses a file with its twin
    let subs: &[(&str, &str)] = &[
        ("* 2", "* 3"), (" >= ", " == "), (" <= ", " != "), ("transfer", "transfEr"), ("keccak256", "keccak257"), ("== true", "== trve"), ("address ( 0 )", "address ( 1 )"),
        ("require (", "reqvire ("), ("selfdestruct", "selfdestrvct"), (". add (", ". adx ("), ("/ 4", "/ 5"), ("0.8.4", "0.8.3"), ("0.7.6", "0.8.6"), ("^0.8", "=0.8"),
    ];
    let n = v.len();
    let mut twin_of: Vec<Option<usize>> = vec![None; n];
    for i in 0..n {
        let mut twin = v[i].clone();
        for (a, b) in subs {
            if a.len() == b.len() {
                twin = twin.replace(a, b);
            }
        }
        if twin != v[i] && twin.len() == v[i].len() && crate::parse(&twin).is_some() {
            twin_of[i] = Some(v.len());
            twin_of.push(Some(i));
            v.push(twin);
        }
    }
    (v, twin_of)
}

fn baseline(files: &[String], pats: &[P]) -> Result<Vec<Vec<BTreeSet<i32>>>, String> {
    let mut b = Vec::new();
    for f in files {
        let mut row = Vec::new();
        for p in pats {
            row.push(catch(|| p.analyze(f, 0))?);
        }
        b.push(row);
    }
    Ok(b)
}

/// The files of a pool on which no detector panics (a panic is C04's business; here it would only
/// leave a phase without a baseline).
fn without_panicking_files(files: Vec<String>, pats: &[P]) -> Vec<String> {
    files.into_iter().filter(|f| pats.iter().all(|p| catch(|| p.analyze(f, 0)).is_ok())).collect()
}

fn seeded_pool(seed: u64) -> Vec<String> {
    let bytes: Vec<u8> = (0..400u64).map(|i| (fnv(&(seed, 31u8, i)) >> 9) as u8).collect();
    let mut t = Tape::new(&bytes);
    pool(&mut t).0
}

fn order_of(n: usize, order: u64) -> Vec<usize> {
    let mut idx: Vec<usize> = (0..n).collect();
    match order {
        0 => {}
        1 => idx.reverse(),
        k => idx.sort_by_key(|i| fnv(&(k, *i))),
    }
    idx
}

/// Child side of the fresh-process phase (`vcheck __c15-baseline <seed> <order>`): analyse the seeded
/// pool once, in the given order, in a process that has seen nothing else, and print the verdicts.
pub fn child_baseline(seed: u64, order: u64) {
    let files = seeded_pool(seed);
    let pats = patterns::all();
    let mut rows: Vec<Value> = vec![Value::Null; files.len()];
    for i in order_of(files.len(), order) {
        let row: Vec<Value> = pats.iter().map(|p| match catch(|| p.analyze(&files[i], 0)) {
            Ok(l) => json!(l),
            Err(site) => json!(format!("panic:{site}")),
        }).collect();
        rows[i] = Value::Array(row);
    }
    println!("{}", Value::Array(rows));
}

/// Fresh-process phase: process-wide state that is set on first sight of some file and never reset
/// looks the same from every later call of that process, so no in-process comparison can see it.
/// The pool is therefore analysed by several fresh child processes of this binary, each in another
/// order; the verdict on every (file, pattern) must be the same in all of them.
fn fresh_process_phase(env: &Env, st: &mut Stats) {
    fresh_process_phase_with(env, env.seed, st)
}

fn fresh_process_phase_with(env: &Env, seed: u64, st: &mut Stats) {
    // the running image itself (`current_exe()` names a path, which a rebuild may have replaced or deleted meanwhile)
    let exe = std::path::PathBuf::from("/proc/self/exe");
    if !exe.exists() {
        st.harness_errors.push("cannot locate the harness binary for the fresh-process phase".into());
        return;
    }
    let files = seeded_pool(seed);
    let pats = patterns::all();
    let orders: Vec<u64> = (0..env.tier.n(6, 24) as u64).collect();
    let mut outs: Vec<Option<Value>> = Vec::new();
    std::thread::scope(|s| {
        let hs: Vec<_> = orders.iter().map(|o| {
            let exe = &exe;
                        s.spawn(move || {
                let out = std::process::Command::new(exe).args(["__c15-baseline", &seed.to_string(), &o.to_string()]).output().ok()?;
                if !out.status.success() {
                    return None;
                }
                // the verdicts are the last line the child prints (anything solstat itself may print comes before)
                let text = String::from_utf8_lossy(&out.stdout);
                serde_json::from_str::<Value>(text.lines().rev().find(|l| !l.trim().is_empty())?).ok()
            })
        }).collect();
        for h in hs {
            outs.push(h.join().ok().flatten());
        }
    });
    let first = match &outs[0] {
        Some(v) => v.clone(),
        None => {
            st.harness_errors.push("fresh-process phase: the child process gave no result".into());
            return;
        }
    };
    for (k, o) in outs.iter().enumerate().skip(1) {
        let o = match o {
            Some(o) => o,
            None => {
                st.harness_errors.push("fresh-process phase: a child process gave no result".into());
                return;
            }
        };
        for fi in 0..files.len() {
            for (pi, p) in pats.iter().enumerate() {
                st.evaluations += 1;
                st.count("verdicts_compared_across_fresh_processes");
                if first[fi][pi] != o[fi][pi] {
                    let before: Vec<usize> = order_of(files.len(), orders[k]).into_iter().take_while(|i| *i != fi).collect();
                    let vs = vec![Violation::new(
                        "fresh-processes",
                        format!("verdict-depends-on-files-analysed-earlier-in-the-process:{}", p.name),
                        format!("{} on pool file {fi} gives {} when the pool is analysed in order in a fresh process, but {} in a fresh process that analysed files {:?} first", p.name, first[fi][pi], o[fi][pi], before),
                        json!({"seed": seed, "order": orders[k], "file": files[fi], "file_index": fi, "pattern": p.name}),
                    )];
                    let vs = filter_known(env, st, vs);
                    if !vs.is_empty() {
                        st.violations.extend(vs);
                        return;
                    }
                }
            }
        }
    }
}

fn history_case(tape: &[u8], st: &mut Stats) -> Vec<Violation> {
    let mut t = Tape::new(tape);
    let (files, twin_of) = pool(&mut t);
    let pats = patterns::all();
    let base = match baseline(&files, &pats) {
        Ok(b) => b,
        Err(_) => {
            st.count("discarded_detector_panic_(C04_domain)");
            return vec![];
        }
    };
    st.add("equal_length_twin_files_in_pool", twin_of.iter().filter(|x| x.is_some()).count() as u64 / 2);
    let n_ops = t.range(3, 14);
    let mut log: Vec<Value> = Vec::new();
    let mut repetitions = 0;
    let mut distinct_files = BTreeSet::new();
    for _ in 0..n_ops {
        match t.below(3) {
            0 | 1 => {
                // per-file call with an arbitrary file number
                let fi = t.below(files.len());
                let pi = t.below(pats.len());
                let file_no = *t.pick(&[0usize, 1, 2, 7, 255, 256, 65536, usize::MAX / 2]);
                let reps = t.range(1, 3);
                for r in 0..reps {
                    st.evaluations += 1;
                    if r > 0 {
                        repetitions += 1;
                    }
                    distinct_files.insert(fi);
                    let got = match catch(|| pats[pi].analyze(&files[fi], file_no)) {
                        Ok(g) => g,
                        Err(site) => return vec![Violation::new("history", format!("panic-in-history:{site}"), "a call that succeeds alone panics inside a history", json!({"ops": log}))],
                    };
                    log.push(json!({"op": "analyze_for", "file": fi, "pattern": pats[pi].name, "file_number": file_no}));
                    if got != base[fi][pi] {
                        let sig = if file_no != 0 { "depends-on-file-number-or-history" } else { "depends-on-history" };
                        return vec![Violation::new("history", format!("{sig}:{}", pats[pi].name), format!("{} on file {} gives {:?} inside the history, {:?} on its own", pats[pi].name, fi, got, base[fi][pi]), json!({"ops": log, "files": files}))];
                    }
                    // the equal-length twin right afterwards, same pattern, same file number
                    if let Some(tw) = twin_of[fi] {
                        st.evaluations += 1;
                        st.count("twin_calls_right_after_the_original");
                        log.push(json!({"op": "analyze_for", "file": tw, "pattern": pats[pi].name, "file_number": file_no, "twin_of": fi}));
                        match catch(|| pats[pi].analyze(&files[tw], file_no)) {
                            Ok(g) => {
                                if g != base[tw][pi] {
                                    return vec![Violation::new("history", format!("depends-on-previous-file:{}", pats[pi].name), format!("{} on file {} right after its equal-length twin {} gives {:?}, {:?} on its own", pats[pi].name, tw, fi, g, base[tw][pi]), json!({"ops": log, "files": files}))];
                                }
                            }
                            Err(site) => return vec![Violation::new("history", format!("panic-in-history:{site}"), "a call that succeeds alone panics inside a history", json!({"ops": log}))],
                        }
                    }
                }
            }
            _ => {
                // directory call: the probe file among varying siblings / positions / pattern selections
                let k = t.range(1, 4);
                let names = ["A.sol", "B.sol", "Token.sol", "Vault.sol"];
                let mut entries: Vec<Entry> = Vec::new();
                let mut used = Vec::new();
                let mut flat: Vec<(String, usize)> = Vec::new();
                for j in 0..k {
                    let fi = t.below(files.len());
                    distinct_files.insert(fi);
                    used.push(fi);
                    let name = names[j % names.len()].to_string();
                    flat.push((name.clone(), fi));
                    entries.push(Entry { name, kind: Kind::File(files[fi].clone().into_bytes()), class: "eligible" });
                }
                // inert siblings (Foundry test files, other files) must not disturb the verdicts of the others
                let n_inert = t.below(3);
                for j in 0..n_inert {
                    let name = *t.pick(&["A.t.sol", "0.t.sol", "Zz.T.sol", "README", "a.sol.txt", ".t.sol"]);
                    if entries.iter().any(|e| e.name == name) {
                        continue;
                    }
                    let content: Vec<u8> = if j % 2 == 0 { tree::POOL[0].as_bytes().to_vec() } else { b"not solidity {{{".to_vec() };
                    entries.push(Entry { name: name.to_string(), kind: Kind::File(content), class: "inert" });
                }
                if t.chance(140) {
                    // a sub-directory whose files reuse the base names of the parent's files
                    let m = t.range(1, 3);
                    let mut sub = Vec::new();
                    for j in 0..m {
                        let fi = t.below(files.len());
                        used.push(fi);
                        let name = names[j % names.len()].to_string();
                        flat.push((name.clone(), fi));
                        sub.push(Entry { name, kind: Kind::File(files[fi].clone().into_bytes()), class: "eligible" });
                    }
                    entries.push(Entry { name: "sub".into(), kind: Kind::Dir(sub), class: "directory" });
                }
                let perm = t.permutation(entries.len());
                let entries: Vec<Entry> = perm.into_iter().map(|i| entries[i].clone()).collect();
                // pattern selection and order
                let mut sel: Vec<P> = pats.iter().copied().filter(|_| t.chance(140)).collect();
                let perm = t.permutation(sel.len());
                sel = perm.into_iter().map(|i| sel[i]).collect();
                let sc = Scratch::new("c15");
                tree::materialize(&entries, &sc.path);
                st.evaluations += 1;
                log.push(json!({"op": "analyze_dir", "files": used, "patterns": sel.iter().map(|p| p.name).collect::<Vec<_>>()}));
                let got = match c03::analyze_dir_all(&sc.path, &sel) {
                    Ok(g) => g,
                    Err(site) => return vec![Violation::new("history", format!("panic-in-history:{site}"), "analyze_dir panics inside a history", json!({"ops": log}))],
                };
                // per (pattern, file name): the multiset of line sets must equal the baselines of the files of that name
                let mut names_seen: Vec<&String> = flat.iter().map(|(n, _)| n).collect();
                names_seen.sort();
                names_seen.dedup();
                for name in names_seen {
                    for p in &sel {
                        let pi = pats.iter().position(|q| q.name == p.name).unwrap();
                        let mut expected: Vec<Vec<i32>> = flat.iter().filter(|(n, _)| n == name).map(|(_, fi)| base[*fi][pi].iter().copied().collect::<Vec<i32>>()).filter(|l| !l.is_empty()).collect();
                        expected.sort();
                        let mut found: Vec<Vec<i32>> = Vec::new();
                        for ((pn, fname, lines), mult) in got.iter() {
                            if pn == p.name && fname == name {
                                for _ in 0..*mult {
                                    found.push(lines.clone());
                                }
                            }
                        }
                        found.sort();
                        if found != expected {
                            return vec![Violation::new("history", format!("directory-entry-differs-from-single-call:{}", p.name), format!("{} for files named {} inside a directory run gives {:?}, the files analysed alone give {:?}", p.name, name, found, expected), json!({"ops": log, "files": files}))];
                        }
                    }
                }
            }
        }
    }
    if distinct_files.len() >= 3 && repetitions >= 1 {
        st.nontrivial(&format!("{:?}", log));
    }
    st.sample(2, || json!({"ops": log}));
    vec![]
}

fn concurrent_phase(env: &Env, st: &mut Stats) {
    let bytes: Vec<u8> = (0..400u64).map(|i| (fnv(&(env.seed, i)) >> 9) as u8).collect();
    let mut t = Tape::new(&bytes);
    let (files, _) = pool(&mut t);
    let pats = patterns::all();
    let files = without_panicking_files(files, &pats);
    let base = match baseline(&files, &pats) {
        Ok(b) => b,
        Err(_) => return,
    };
    let calls = env.tier.n(1500, 20_000) as usize;
    let results: std::sync::Mutex<Vec<Violation>> = std::sync::Mutex::new(Vec::new());
    let total = std::sync::atomic::AtomicU64::new(0);
    std::thread::scope(|s| {
        for th in 0..16usize {
            let files = &files;
            let pats = &pats;
            let base = &base;
            let results = &results;
            let total = &total;
            let seed = env.seed;
            s.spawn(move || {
                for c in 0..calls {
                    let h = fnv(&(seed, th, c));
                    let fi = (h % files.len() as u64) as usize;
                    let pi = ((h >> 20) % pats.len() as u64) as usize;
                    let got = catch(|| pats[pi].analyze(&files[fi], th * 1000 + c));
                    total.fetch_add(1, std::sync::atomic::Ordering::Relaxed);
                    match got {
                        Ok(g) if g == base[fi][pi] => {}
                        other => {
                            results.lock().unwrap().push(Violation::new(
                                "concurrent",
                                format!("concurrent-call-differs:{}", pats[pi].name),
                                format!("{} on file {} from thread {} gives {:?}, sequential baseline {:?}", pats[pi].name, fi, th, other, base[fi][pi]),
                                json!({"files": files, "pattern": pats[pi].name, "file": fi}),
                            ));
                            return;
                        }
                    }
                }
            });
        }
    });
    st.evaluations += total.load(std::sync::atomic::Ordering::Relaxed);
    st.add("concurrent_calls", total.load(std::sync::atomic::Ordering::Relaxed));
    // cold start: a text (and pragma value) that this process has never analysed is analysed for the
    // first time by 16 threads at once (released together by a barrier); the sequential result is
    // taken afterwards.  Whatever is initialised lazily on first sight must not be visible half-done.
    {
        let gated: Vec<P> = pats.iter().copied().filter(|p| ["safe_math_pre_080", "safe_math_post_080", "string_errors", "short_revert_string", "floating_pragma", "solidity_math"].contains(&p.name)).collect();
        let rounds = env.tier.n(150, 2500) as usize;
        let mut cold_calls = 0u64;
        'rounds: for r in 0..rounds {
            let op = ["", "^", ">=", "~", "="][r % 5];
            let text = format!(
                "pragma solidity {op}0.{}.{} ;\nusing SafeMath for uint256 ;\ncontract Cold{r} {{\nfunction f{r} ( uint256 a ) public returns ( uint256 ) {{\nrequire ( a > {r} , \"a message that is longer than thirty-two bytes in total {r}\" ) ;\nreturn a . add ( {r} ) + 1 ;\n}}\n}}\n",
                7 + (r % 2),
                41 + r
            );
            let barrier = std::sync::Barrier::new(16);
            let got: std::sync::Mutex<Vec<(usize, Vec<Result<BTreeSet<i32>, String>>)>> = std::sync::Mutex::new(Vec::new());
            std::thread::scope(|s| {
                for th in 0..16usize {
                    let (text, gated, barrier, got) = (&text, &gated, &barrier, &got);
                    s.spawn(move || {
                        barrier.wait();
                        let mut v = Vec::new();
                        // threads start with different detectors so that every detector is somebody's first call
                        for k in 0..gated.len() {
                            let p = &gated[(k + th) % gated.len()];
                            v.push(catch(|| p.analyze(text, th)));
                        }
                        got.lock().unwrap().push((th, v));
                    });
                }
            });
            for (th, v) in got.into_inner().unwrap() {
                for (k, r1) in v.into_iter().enumerate() {
                    let p = &gated[(k + th) % gated.len()];
                    cold_calls += 1;
                    let seq = catch(|| p.analyze(&text, 0));
                    if r1 != seq {
                        let vs = vec![Violation::new(
                            "concurrent",
                            format!("concurrent-first-call-differs:{}", p.name),
                            format!("{} on a text analysed for the first time by 16 threads at once gives {:?} in thread {th}, {:?} sequentially afterwards", p.name, r1, seq),
                            json!({"text": text, "pattern": p.name}),
                        )];
                        let vs = filter_known(env, st, vs);
                        if !vs.is_empty() {
                            st.violations.extend(vs);
                            break 'rounds;
                        }
                    }
                }
            }
        }
        st.evaluations += cold_calls;
        st.add("concurrent_first_calls_on_fresh_texts", cold_calls);
    }
    // concurrent directory analyses: 16 threads, each on its own copy of a tree nested 6 levels deep
    {
        let mut level: Vec<Entry> = vec![Entry { name: "Leaf.sol".into(), kind: Kind::File(files[0].clone().into_bytes()), class: "eligible" }];
        for d in 0..6 {
            level = vec![
                Entry { name: format!("L{d}.sol"), kind: Kind::File(files[(d + 1) % files.len()].clone().into_bytes()), class: "eligible" },
                Entry { name: format!("d{d}"), kind: Kind::Dir(level), class: "directory" },
            ];
        }
        let sc = Scratch::new("c15conc");
        let seq_root = sc.path.join("seq");
        std::fs::create_dir_all(&seq_root).unwrap();
        tree::materialize(&level, &seq_root);
        if let Ok(expected) = c03::analyze_dir_all(&seq_root, &pats) {
            let rounds = env.tier.n(12, 120) as usize;
            let bad: std::sync::Mutex<Vec<Violation>> = std::sync::Mutex::new(Vec::new());
            let done = std::sync::atomic::AtomicU64::new(0);
            std::thread::scope(|s| {
                for th in 0..16usize {
                    let level = &level;
                    let pats = &pats;
                    let expected = &expected;
                    let bad = &bad;
                    let done = &done;
                    let root = sc.path.join(format!("t{th}"));
                    s.spawn(move || {
                        std::fs::create_dir_all(&root).unwrap();
                        tree::materialize(level, &root);
                        for _ in 0..rounds {
                            let got = c03::analyze_dir_all(&root, pats);
                            done.fetch_add(1, std::sync::atomic::Ordering::Relaxed);
                            if got.as_ref().ok() != Some(expected) {
                                bad.lock().unwrap().push(Violation::new("concurrent", "concurrent-directory-analysis-differs", format!("analyze_dir from thread {th} differs from the sequential result on the same tree ({} vs {} entries)", got.map(|g| g.len()).unwrap_or(0), expected.len()), json!({"threads": 16, "nesting": 6})));
                                return;
                            }
                        }
                    });
                }
            });
            let n = done.load(std::sync::atomic::Ordering::Relaxed);
            st.evaluations += n;
            st.add("concurrent_directory_analyses", n);
            let vs = bad.into_inner().unwrap();
            let vs = filter_known(env, st, vs);
            st.violations.extend(vs.into_iter().take(1));
        }
    }
    let vs = results.into_inner().unwrap();
    let vs = filter_known(env, st, vs);
    st.violations.extend(vs.into_iter().take(2));
}

/// A very deep file (1 200 nested blocks and parentheses) analysed in between: whatever such an
/// input leaves behind (counters, caches, guards) must not change the verdicts on the files that follow.
fn deep_phase(env: &Env, st: &mut Stats) {
    let bytes: Vec<u8> = (0..400u64).map(|i| (fnv(&(env.seed, 77u8, i)) >> 9) as u8).collect();
    let mut t = Tape::new(&bytes);
    let (files, _) = pool(&mut t);
    let pats = patterns::all();
    let files = without_panicking_files(files, &pats);
    let base = match baseline(&files, &pats) {
        Ok(b) => b,
        Err(_) => return,
    };
    let n = 1100;
    // deep and bushy: every one of the 1 100 nesting levels holds 32 statements besides the nested block,
    // and the innermost expression is wrapped in 1 200 parentheses
    let mut deep = String::from("pragma solidity 0.8.17 ;\ncontract Deep { uint256 s ; function f ( ) public { ");
    for _ in 0..n {
        deep.push_str("{ ");
        deep.push_str(&"i ++ ; ".repeat(32));
    }
    deep.push_str(&format!("s = {} a >= b {} ; ", "( ".repeat(n), ") ".repeat(n)));
    deep.push_str(&"} ".repeat(n));
    deep.push_str("} }\n");
    let rounds = env.tier.n(1, 4) as usize;
    let handle = std::thread::Builder::new().stack_size(1 << 30).spawn(move || {
        let mut out: Vec<Violation> = Vec::new();
        let mut evals = 0u64;
        for (k, p) in pats.iter().enumerate() {
            if k % 6 != 0 || k / 6 >= rounds {
                continue;
            }
            // all detectors see the deep file, then the ordinary files are re-checked
            for q in pats.iter() {
                let _ = catch(|| q.analyze(&deep, 0));
                evals += 1;
            }
            for (fi, f) in files.iter().enumerate() {
                for (pi, q) in pats.iter().enumerate() {
                    evals += 1;
                    match catch(|| q.analyze(f, 0)) {
                        Ok(g) if g == base[fi][pi] => {}
                        other => {
                            out.push(Violation::new("deep-file-in-between", format!("verdict-changes-after-deep-file:{}", q.name), format!("{} on file {} gives {:?} after a 1200-level deep file was analysed with {}, {:?} before", q.name, fi, other, p.name, base[fi][pi]), json!({"files": files})));
                            return (out, evals);
                        }
                    }
                }
            }
        }
        (out, evals)
    });
    match handle.map(|h| h.join()) {
        Ok(Ok((vs, evals))) => {
            st.evaluations += evals;
            st.add("calls_after_a_very_deep_file", evals);
            let vs = filter_known(env, st, vs);
            st.violations.extend(vs);
        }
        _ => st.harness_errors.push("the deep-file phase could not be run (thread could not be started or ended abnormally)".into()),
    }
}

pub fn replay(env: &Env, check: &str, case: &Value, st: &mut Stats) -> Vec<Violation> {
    if check == "fresh-processes" {
        let seed = case.get("seed").and_then(|s| s.as_u64()).unwrap_or(0);
        let mut s2 = Stats::default();
        fresh_process_phase_with(env, seed, &mut s2);
        st.evaluations += s2.evaluations;
        return s2.violations;
    }
    // replays re-run the recorded per-file calls against fresh baselines
    let files: Vec<String> = case.get("files").and_then(|f| f.as_array()).map(|a| a.iter().filter_map(|x| x.as_str().map(String::from)).collect()).unwrap_or_default();
    let pats = patterns::all();
    let mut out = Vec::new();
    if let Ok(base) = baseline(&files, &pats) {
        for (fi, f) in files.iter().enumerate() {
            for (pi, p) in pats.iter().enumerate() {
                for n in [0usize, 1, 255, 65536] {
                    if let Ok(g) = catch(|| p.analyze(f, n)) {
                        if g != base[fi][pi] {
                            out.push(Violation::new("history", format!("depends-on-file-number-or-history:{}", p.name), "verdict differs between calls", json!({"files": files})));
                            return out;
                        }
                    }
                }
            }
        }
    }
    let _ = (env, st);
    out
}

pub fn run(env: &Env) -> i32 {
    let mut st = Stats::default();
    for (name, check, case) in regression_cases(env) {
        st.count("regressions_replayed");
        let vs = replay(env, &check, &case, &mut st);
        let vs = filter_known(env, &mut st, vs);
        if !vs.is_empty() {
            eprintln!("regression {name} fails");
        }
        st.violations.extend(vs);
    }
    let mut deep_stats = Stats::default();
    std::thread::scope(|sc| {
        let h = sc.spawn(|| deep_phase(env, &mut deep_stats));
        tape_stream(env, &mut st, "histories", env.tier.n(3000, 40_000), 900, |tape, s| history_case(tape, s));
        concurrent_phase(env, &mut st);
        fresh_process_phase(env, &mut st);
        let _ = h.join();
    });
    st.merge(deep_stats);
    let meta = Meta {
        rule: "cases = histories of 3-14 library operations over a pool of files that share state-variable names and differ in solidity version and SafeMath usage: per-file analyses with arbitrary file numbers and repetitions, directory analyses with the file among varying siblings, positions, sub-directories and pattern selections/orders; oracle = every (file, pattern) result inside the history equals the baseline of a single call; plus 16 threads x N concurrent calls compared with the sequential baseline; non-trivial = at least 3 different files and at least one repetition in the history".into(),
        assumptions: vec!["thread schedules are not owned by the harness: the concurrent phase is stress only (DESIGN section 5 C15)".into()],
        extra: json!({}),
        floors: vec![
            ("concurrent calls".into(), st.counters.get("concurrent_calls").copied().unwrap_or(0), 1000),
            ("calls after a very deep file".into(), st.counters.get("calls_after_a_very_deep_file").copied().unwrap_or(0), 100),
            ("concurrent first calls on fresh texts".into(), st.counters.get("concurrent_first_calls_on_fresh_texts").copied().unwrap_or(0), 1000),
            ("verdicts compared across fresh processes".into(), st.counters.get("verdicts_compared_across_fresh_processes").copied().unwrap_or(0), 1000),
        ],
    };
    finish(env, st, meta)
}
