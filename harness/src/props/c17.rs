//! C17 — findings are invariant under re-layout and commenting of the source.

use crate::engine::*;
use crate::gen::layout::{self, Fixed, Tok};
use crate::gen::program;
use crate::line_of;
use crate::patterns;
use crate::tape::Tape;
use serde_json::{json, Value};
use std::collections::BTreeSet;

/// Replace the content of every quoted string literal token by a run of 'x' of equal byte length.
fn blank_strings(toks: &[Tok]) -> Vec<Tok> {
    toks.iter()
        .map(|t| {
            let s = &t.text;
            let (prefix, rest) = if let Some(r) = s.strip_prefix("unicode") { ("unicode", r) } else { ("", s.as_str()) };
            let q = rest.chars().next();
            if !t.in_pragma && (q == Some('"') || q == Some('\'')) && rest.len() >= 2 && rest.ends_with(q.unwrap()) {
                let inner_len = rest.len() - 2;
                let qc = q.unwrap();
                Tok { text: format!("{prefix}{qc}{}{qc}", "x".repeat(inner_len)), in_pragma: false }
            } else {
                t.clone()
            }
        })
        .collect()
}

fn analyze_all(text: &str) -> Result<Vec<BTreeSet<i32>>, String> {
    let mut v = Vec::new();
    for p in patterns::all() {
        v.push(catch(|| p.analyze(text, 0))?);
    }
    Ok(v)
}

/// `layouts`: (name, text, token offsets). The first must be the one-token-per-line layout.
pub fn check_layouts(check: &str, toks: &[Tok], layouts: &[(String, String, Vec<usize>)], st: &mut Stats) -> Vec<Violation> {
    let pats = patterns::all();
    let l1 = &layouts[0];
    let base = match analyze_all(&l1.1) {
        Ok(b) => b,
        Err(_) => {
            st.count("discarded_detector_panic_(C04_domain)");
            return vec![];
        }
    };
    let any_finding = base.iter().any(|s| !s.is_empty());
    let case = |other: &(String, String, Vec<usize>)| json!({"tokens": toks.iter().map(|t| t.text.clone()).collect::<Vec<_>>(), "layout_name": other.0, "layout_text": other.1});
    for other in &layouts[1..] {
        let got = match analyze_all(&other.1) {
            Ok(g) => g,
            Err(site) => return vec![Violation::new(check, format!("panic-after-relayout:{site}"), "a detector panics on a re-layout of a file it handles", case(other))],
        };
        for (pi, p) in pats.iter().enumerate() {
            st.evaluations += 1;
            let flagged: BTreeSet<usize> = base[pi].iter().map(|l| (*l - 1) as usize).collect();
            if flagged.iter().any(|i| *i >= toks.len()) {
                return vec![Violation::new(check, format!("line-beyond-file:{}", p.name), "one-token-per-line layout: a reported line exceeds the number of tokens", case(l1))];
            }
            let expected: BTreeSet<i32> = flagged.iter().map(|i| line_of(&other.1, other.2[*i])).collect();
            // classification
            if !flagged.is_empty() {
                if expected.len() < flagged.len() {
                    st.count("layouts_where_two_flagged_tokens_share_a_line");
                }
                if flagged.iter().any(|i| !other.1[other.2[*i]..].contains('\n')) {
                    st.count("layouts_with_flagged_token_on_last_unterminated_line");
                }
            }
            if got[pi] != expected {
                let missing: Vec<_> = expected.difference(&got[pi]).take(3).collect();
                let extra: Vec<_> = got[pi].difference(&expected).take(3).collect();
                let kind = if other.0 == "strings-blanked" { "string-content" } else { "layout" };
                return vec![Violation::new(
                    check,
                    format!("{kind}-changes-findings:{}", p.name),
                    format!("{}: layout '{}' reports lines {:?}; the tokens flagged in the one-token-per-line layout are on lines {:?} (missing {:?}, extra {:?})", p.name, other.0, got[pi], expected, missing, extra),
                    case(other),
                )];
            }
        }
    }
    if any_finding {
        st.nontrivial(&l1.1);
    }
    vec![]
}

fn case_from_tape(tape: &[u8], cfg: &program::GenCfg, st: &mut Stats) -> Vec<Violation> {
    let mut t = Tape::new(tape);
    let base = program::gen_program(&mut t, cfg);
    let toks = match layout::tokenize(&base) {
        Some(t) => t,
        None => return vec![],
    };
    if toks.is_empty() || crate::parse(&base).is_none() {
        st.count("generator_rejected_by_parser");
        return vec![];
    }
    st.count("programs");
    let mut layouts: Vec<(String, String, Vec<usize>)> = Vec::new();
    for (name, f) in [("one-token-per-line", Fixed::OnePerLine), ("one-line", Fixed::OneLine), ("crlf", Fixed::Crlf), ("no-final-newline", Fixed::OnePerLineNoFinalNewline)] {
        let txt = layout::fixed_layout(&toks, f);
        let offs = layout::offsets_of(&txt, &toks);
        layouts.push((name.to_string(), txt, offs));
    }
    for k in 0..3 {
        let (txt, offs, info) = layout::random_layout(&toks, &mut t);
        if !layout::same_tokens(&txt, &toks) {
            st.count("layout_selfcheck_failed");
            continue;
        }
        if info.comments > 0 {
            st.count("layouts_with_code_like_comments");
        }
        if info.multibyte > 0 {
            st.count("layouts_with_multibyte_characters");
        }
        if info.crlf > 0 {
            st.count("layouts_with_crlf");
        }
        if info.touching > 0 {
            st.count("layouts_with_touching_tokens");
        }
        if info.pragma_comments > 0 {
            st.count("layouts_with_comment_inside_a_pragma_value");
        }
        layouts.push((format!("random-{k}"), txt, offs));
    }
    // string literal contents replaced by x-runs (same lengths => same offsets)
    let blanked = blank_strings(&toks);
    if blanked != toks {
        let txt = layout::fixed_layout(&blanked, Fixed::OnePerLine);
        if crate::parse(&txt).is_some() {
            st.count("programs_with_string_literals_blanked");
            let offs = layout::offsets_of(&txt, &blanked);
            layouts.push(("strings-blanked".to_string(), txt, offs));
        }
    }
    st.sample(2, || json!({"random_layout": layouts.iter().find(|l| l.0.starts_with("random")).map(|l| l.1.chars().take(700).collect::<String>())}));
    check_layouts("layouts", &toks, &layouts, st)
}

pub fn replay(_env: &Env, check: &str, case: &Value, st: &mut Stats) -> Vec<Violation> {
    let toks: Vec<Tok> = case
        .get("tokens")
        .and_then(|t| t.as_array())
        .map(|a| a.iter().filter_map(|x| x.as_str()).map(|s| Tok { text: s.to_string(), in_pragma: false }).collect())
        .unwrap_or_default();
    let text = case.get("layout_text").and_then(|t| t.as_str()).unwrap_or("");
    if toks.is_empty() {
        return vec![];
    }
    let l1 = layout::fixed_layout(&toks, Fixed::OnePerLine);
    let o1 = layout::offsets_of(&l1, &toks);
    // offsets of the tokens in the stored layout: re-lex it
    let toks2 = match layout::tokenize(text) {
        Some(t) => t,
        None => return vec![],
    };
    let name = case.get("layout_name").and_then(|t| t.as_str()).unwrap_or("replayed").to_string();
    if toks2.len() != toks.len() {
        return vec![];
    }
    // recover offsets by lexing positions
    let mut offs = Vec::new();
    {
        let mut comments = Vec::new();
        let lex = solang_parser::lexer::Lexer::new(text, 0, &mut comments);
        for item in lex {
            if let Ok((s, _, _)) = item {
                offs.push(s);
            }
        }
    }
    let layouts = vec![("one-token-per-line".to_string(), l1, o1), (name, text.to_string(), offs)];
    check_layouts(check, &toks2, &layouts, st)
}

pub fn run(env: &Env) -> i32 {
    let mut st = Stats::default();
    for (name, check, case) in regression_cases(env) {
        st.count("regressions_replayed");
        let vs = replay(env, &check, &case, &mut st);
        let vs = filter_known(env, &mut st, vs);
        if !vs.is_empty() {
            eprintln!("regression {name} fails");
        }
        st.violations.extend(vs);
    }
    let fz = fuzz_inputs();
    let mut fuzz_stats = json!({"status": "not run in this tier"});
    if let Some(fz) = &fz {
        fuzz_stats = fz.stats.clone();
        // every program the coverage-guided fuzzer kept: its own tape continues into the layout choices
        enum_stream(env, &mut st, fz.inputs.len() as u64, |i, s| {
            let data = &fz.inputs[i as usize].1;
            if data.is_empty() {
                return vec![];
            }
            let cfg = program::GenCfg { undecided: true, plant: 100, focus: data[0] % 4, max_depth: 7, newline_items: false, ..Default::default() };
            s.count("fuzz_inputs_replayed");
            case_from_tape(&data[1..], &cfg, s)
        });
    }
    let cfg = program::GenCfg { undecided: true, plant: 120, newline_items: false, ..Default::default() };
    tape_stream(env, &mut st, "layouts", env.tier.n(2500, 80_000), 1300, |tape, s| case_from_tape(tape, &cfg, s));
    let cfg2 = program::GenCfg { undecided: true, plant: 90, newline_items: false, focus: 2, max_members: 10, ..Default::default() };
    tape_stream(env, &mut st, "layouts-declarations", env.tier.n(1500, 40_000), 1300, |tape, s| case_from_tape(tape, &cfg2, s));
    let g = |k: &str| st.counters.get(k).copied().unwrap_or(0);
    let meta = Meta {
        rule: "cases = (token sequence of a generated program, layout): one token per line (line = token index), one line without final newline, CRLF, no final newline, three random layouts (blank runs, tabs, CRLF, lone CR, line / block / doc comments with code-like text, multi-byte characters, touching tokens) and a variant with every string literal's content replaced by an x-run of equal length; oracle = for all 30 patterns the lines reported under a layout are exactly the lines of the tokens flagged in the one-token-per-line layout; non-trivial = the program has at least one finding; distinct by token sequence".into(),
        assumptions: vec![
            "comments are also placed inside pragma directives (before, between and after the version constraints, between an operator and its version); for this lexer such a comment is part of the value token, so the self-check compares pragma values modulo comments and white space; such comments never contain a ';' (it would end the directive)".into(),
            "each layout is re-lexed and must give the identical token sequence (generator self-check)".into(),
        ],
        extra: json!({"fuzz": fuzz_stats}),
        floors: vec![
            ("layouts with code-like comments".into(), g("layouts_with_code_like_comments"), 500),
            ("layouts where two flagged tokens share a line".into(), g("layouts_where_two_flagged_tokens_share_a_line"), 500),
            ("layouts with a flagged token on the last unterminated line".into(), g("layouts_with_flagged_token_on_last_unterminated_line"), 200),
            ("programs with string literals blanked".into(), g("programs_with_string_literals_blanked"), 200),
            ("layouts with a comment inside a pragma value".into(), g("layouts_with_comment_inside_a_pragma_value"), 200),
        ],
    };
    finish(env, st, meta)
}
