//! C18 — a run only reads its inputs and writes one report file.

use crate::engine::*;
use crate::gen::tree::{self, Entry, Kind, Scratch, TreeCfg};
use crate::props::e2e;
use crate::tape::Tape;
use serde_json::{json, Value};
use std::collections::BTreeMap;
use std::path::Path;

type Snap = BTreeMap<String, (char, Vec<u8>)>;

fn snapshot(root: &Path, prefix: &str, out: &mut Snap) {
    if let Ok(rd) = std::fs::read_dir(root) {
        for e in rd.filter_map(|e| e.ok()) {
            let name = e.file_name().to_string_lossy().to_string();
            let rel = if prefix.is_empty() { name.clone() } else { format!("{prefix}/{name}") };
            let p = e.path();
            let md = match std::fs::symlink_metadata(&p) {
                Ok(m) => m,
                Err(_) => continue,
            };
            if md.is_dir() {
                out.insert(rel.clone(), ('d', vec![]));
                snapshot(&p, &rel, out);
            } else {
                out.insert(rel, ('f', std::fs::read(&p).unwrap_or_default()));
            }
        }
    }
}

#[derive(Clone, Debug)]
struct History {
    spec: Vec<Entry>,
    /// 0 separate empty dir, 1 parent of the tree (tree is ./contracts), 2 the analysed dir itself (--path .), 3 a sub-directory of the tree
    cwd_kind: u8,
    /// 0 absent, 1 unrelated text, 2 large text, 3 report-like text with entries
    stale: u8,
    runs: u8,
    edit_between: bool,
    /// the directory is named by a toml file that lives in yet another directory (which must stay untouched)
    use_toml: bool,
}

fn gen_history(t: &mut Tape) -> History {
    let mut skipped = 0;
    let mut spec = tree::gen_tree(t, &TreeCfg { max_entries: 5, ..Default::default() }, &mut skipped);
    // never generate a file that is itself called solstat_report.md inside the tree root for cwd kinds 2/3 (it would be "the report")
    spec.retain(|e| e.name != "solstat_report.md");
    History { spec, cwd_kind: t.below(4) as u8, stale: t.below(5) as u8, runs: t.range(1, 3) as u8, edit_between: t.chance(90), use_toml: t.chance(70) }
}

fn first_subdir(spec: &[Entry]) -> Option<String> {
    spec.iter().find(|e| matches!(e.kind, Kind::Dir(_) | Kind::Link(_))).map(|e| e.name.clone())
}

fn run_history(env: &Env, h: &History, st: &mut Stats) -> Vec<Violation> {
    let case = json!({"tree": tree::to_json(&h.spec), "cwd_kind": h.cwd_kind, "stale": h.stale, "runs": h.runs, "edit_between": h.edit_between, "use_toml": h.use_toml});
    let sc = Scratch::new("c18");
    let parent = sc.path.join("p");
    let root = parent.join("contracts");
    std::fs::create_dir_all(&root).unwrap();
    tree::materialize(&h.spec, &root);
    let sub = first_subdir(&h.spec);
    let cfgdir = sc.path.join("config");
    let (cwd, mut args): (std::path::PathBuf, Vec<String>) = match h.cwd_kind {
        0 => {
            let c = sc.path.join("elsewhere");
            std::fs::create_dir_all(&c).unwrap();
            (c, vec!["--path".into(), root.to_str().unwrap().into()])
        }
        1 => (parent.clone(), vec![]),
        2 => (root.clone(), vec!["--path".into(), ".".into()]),
        _ => match &sub {
            Some(s) => (root.join(s), vec!["--path".into(), "..".into()]),
            None => (root.clone(), vec!["--path".into(), ".".into()]),
        },
    };
    if h.use_toml {
        // the configuration file lives elsewhere and names the directory; no --path
        std::fs::create_dir_all(&cfgdir).unwrap();
        let names = |cat: &str| crate::patterns::all().iter().filter(|p| p.category() == cat).map(|p| format!("\"{}\"", p.name)).collect::<Vec<_>>().join(", ");
        std::fs::write(cfgdir.join("cfg.toml"), format!("path = '{}'\noptimizations = [{}]\nvulnerabilities = [{}]\nqa = [{}]\n", root.display(), names("optimizations"), names("vulnerabilities"), names("qa"))).unwrap();
        std::fs::write(cfgdir.join("other.txt"), "keep me").unwrap();
        args = vec!["--toml".into(), cfgdir.join("cfg.toml").to_str().unwrap().into()];
        st.count("histories_with_configuration_file_elsewhere");
    }
    st.mark("cwd_kinds", match h.cwd_kind { 0 => "separate", 1 => "parent-default-contracts", 2 => "analysed-dir-itself", _ => "sub-directory-of-tree" });
    let report_path = cwd.join("solstat_report.md");
    match h.stale {
        1 => std::fs::write(&report_path, "unrelated text\n").unwrap(),
        2 => std::fs::write(&report_path, "x".repeat(1 << 20)).unwrap(),
        3 => std::fs::write(&report_path, "# Gas Optimizations - (Total Optimizations 1)\n## Optimal Comparison\n### Lines\n- Stale.sol:7\n\n\n").unwrap(),
        _ => {}
    }
    let mut stale_same_length = h.stale == 4;
    if h.stale != 0 {
        st.count("histories_with_stale_report");
    }
    // reference: the report of a run on the same tree from a fresh, separate working directory
    let reference = |spec: &[Entry], st: &mut Stats| -> Option<Vec<u8>> {
        let sc2 = Scratch::new("c18ref");
        let r = sc2.path.join("contracts");
        let c = sc2.path.join("cwd");
        std::fs::create_dir_all(&r).unwrap();
        std::fs::create_dir_all(&c).unwrap();
        tree::materialize(spec, &r);
        let o = e2e::run_solstat(env, &c, &["--path", r.to_str().unwrap()]);
        st.count("binary_runs");
        if o.code == Some(0) {
            o.report
        } else {
            None
        }
    };
    let mut spec = h.spec.clone();
    for run in 0..h.runs {
        if run > 0 && h.edit_between {
            // edit the tree between runs: add one more eligible file
            let extra = Entry { name: format!("Added{run}.sol"), kind: Kind::File(tree::POOL[2].as_bytes().to_vec()), class: "eligible" };
            std::fs::write(root.join(&extra.name), tree::POOL[2]).unwrap();
            spec.push(extra);
        }
        if stale_same_length {
            // a stale report of exactly the length of the report to come, with different content
            stale_same_length = false;
            if let Some(mut r) = reference(&spec, st) {
                if !r.is_empty() {
                    for b in r.iter_mut() {
                        if b.is_ascii_digit() {
                            *b = b'0' + ((*b - b'0' + 1) % 10);
                        } else if b.is_ascii_lowercase() {
                            *b = b'x';
                        }
                    }
                    std::fs::write(&report_path, &r).unwrap();
                    st.count("histories_with_stale_report_of_equal_length");
                }
            }
        }
        let mut before_tree = Snap::new();
        snapshot(&root, "", &mut before_tree);
        let mut before_cfg = Snap::new();
        snapshot(&cfgdir, "", &mut before_cfg);
        let mut before_cwd = Snap::new();
        snapshot(&cwd, "", &mut before_cwd);
        let a: Vec<&str> = args.iter().map(|s| s.as_str()).collect();
        // every other history gives the child a private, empty TMPDIR on the same file system (snapshotted);
        // the others inherit the default one, which lives on another file system than the working directory
        let private_tmp = (h.runs + h.stale + h.cwd_kind) % 2 == 0;
        let tmpdir = sc.path.join("tmpdir");
        if private_tmp {
            std::fs::create_dir_all(&tmpdir).unwrap();
        }
        // the child's HOME (and XDG directories) are an empty directory inside the scratch area, so that
        // anything written "to the user's home" is seen by the snapshot of the whole scratch area
        let home = sc.path.join("home");
        std::fs::create_dir_all(&home).unwrap();
        let mut before_all = Snap::new();
        snapshot(&sc.path, "", &mut before_all);
        let mut vars: Vec<(&str, &Path)> = vec![("HOME", &home), ("XDG_CACHE_HOME", &home), ("XDG_CONFIG_HOME", &home), ("XDG_DATA_HOME", &home)];
        if private_tmp {
            vars.push(("TMPDIR", &tmpdir));
        }
        let out = e2e::run_solstat_env(env, &cwd, &a, &vars);
        st.count("binary_runs");
        st.evaluations += 1;
        if out.code != Some(0) {
            // every eligible file of the tree parses: the run has to succeed and leave its report
            return vec![Violation::new("history", "run-fails", format!("solstat exits with {:?} on a tree whose eligible files all parse: {}", out.code, out.stderr), case)];
        }
        if private_tmp {
            let mut t = Snap::new();
            snapshot(&tmpdir, "", &mut t);
            if !t.is_empty() {
                return vec![Violation::new("history", "temporary-file-left-behind", format!("files left in TMPDIR after the run: {:?}", t.keys().take(3).collect::<Vec<_>>()), case)];
            }
            st.count("runs_with_private_tmpdir");
        }
        let mut after_tree = Snap::new();
        snapshot(&root, "", &mut after_tree);
        let mut after_cwd = Snap::new();
        snapshot(&cwd, "", &mut after_cwd);
        let mut after_cfg = Snap::new();
        snapshot(&cfgdir, "", &mut after_cfg);
        if before_cfg != after_cfg {
            return vec![Violation::new("history", "configuration-directory-modified", "the directory holding the configuration file changed during the run (a file was created or modified there)", case)];
        }
        // the analysed tree is unchanged, except for the report when cwd lies inside it
        let rel_report: Option<String> = report_path.strip_prefix(&root).ok().map(|p| p.to_string_lossy().to_string());
        let mut bt = before_tree.clone();
        let mut at = after_tree.clone();
        if let Some(r) = &rel_report {
            bt.remove(r);
            at.remove(r);
        }
        if bt != at {
            let changed: Vec<&String> = at.keys().filter(|k| bt.get(*k) != at.get(*k)).chain(bt.keys().filter(|k| !at.contains_key(*k))).take(3).collect();
            return vec![Violation::new("history", "analysed-tree-modified", format!("the analysed tree changed during the run: {:?}", changed), case)];
        }
        // cwd: exactly solstat_report.md is created / replaced
        let mut bc = before_cwd.clone();
        let mut ac = after_cwd.clone();
        bc.remove("solstat_report.md");
        let rep = ac.remove("solstat_report.md");
        if bc != ac {
            let changed: Vec<&String> = ac.keys().filter(|k| bc.get(*k) != ac.get(*k)).chain(bc.keys().filter(|k| !ac.contains_key(*k))).take(3).collect();
            return vec![Violation::new("history", "working-directory-modified", format!("files other than solstat_report.md changed in the working directory: {:?}", changed), case)];
        }
        let rep = match rep {
            Some((_, bytes)) => bytes,
            None => return vec![Violation::new("history", "no-report", "no solstat_report.md in the working directory after the run", case)],
        };
        // nothing else anywhere in the scratch area (parents of the tree and of the working directory,
        // the child's HOME, sibling directories) was created, removed or modified
        {
            let mut after_all = Snap::new();
            snapshot(&sc.path, "", &mut after_all);
            let rel = report_path.strip_prefix(&sc.path).ok().map(|p| p.to_string_lossy().to_string()).unwrap_or_default();
            before_all.remove(&rel);
            after_all.remove(&rel);
            if before_all != after_all {
                let changed: Vec<&String> = after_all.keys().filter(|k| before_all.get(*k) != after_all.get(*k)).chain(before_all.keys().filter(|k| !after_all.contains_key(*k))).take(3).collect();
                return vec![Violation::new("history", "file-outside-working-directory-modified", format!("paths other than the report changed during the run (relative to the scratch area: p/contracts = analysed tree, home = the child's HOME): {:?}", changed), case)];
            }
        }
        // overwritten, not appended; stale report without influence
        match reference(&spec, st) {
            Some(r) => {
                if r != rep {
                    let sig = if rep.len() > r.len() && rep.ends_with(&r) || rep.starts_with(b"unrelated") || rep.starts_with(b"xxxx") { "report-appended-to-previous" } else { "report-differs-from-fresh-run" };
                    return vec![Violation::new("history", sig, format!("the report ({} bytes) differs from the report of a run on the same tree in a fresh working directory ({} bytes)", rep.len(), r.len()), case)];
                }
            }
            None => {
                st.count("discarded_reference_run_failed");
                return vec![];
            }
        }
    }
    if (h.cwd_kind >= 2 && h.stale != 0) || h.runs >= 2 {
        st.nontrivial(&format!("{:?}", case));
    }
    vec![]
}

pub fn replay(env: &Env, _check: &str, case: &Value, st: &mut Stats) -> Vec<Violation> {
    let h = History {
        spec: tree::from_json(case.get("tree").unwrap_or(&Value::Null)),
        cwd_kind: case.get("cwd_kind").and_then(|x| x.as_u64()).unwrap_or(0) as u8,
        stale: case.get("stale").and_then(|x| x.as_u64()).unwrap_or(0) as u8,
        runs: case.get("runs").and_then(|x| x.as_u64()).unwrap_or(1) as u8,
        edit_between: case.get("edit_between").and_then(|x| x.as_bool()).unwrap_or(false),
        use_toml: case.get("use_toml").and_then(|x| x.as_bool()).unwrap_or(false),
    };
    run_history(env, &h, st)
}

pub fn run(env: &Env) -> i32 {
    let mut st = Stats::default();
    if !env.solstat_bin().exists() {
        st.harness_errors.push("solstat binary not built".into());
        return finish(env, st, Meta { rule: "binary missing".into(), assumptions: vec![], extra: json!({}), floors: vec![] });
    }
    for (name, check, case) in regression_cases(env) {
        st.count("regressions_replayed");
        let vs = replay(env, &check, &case, &mut st);
        let vs = filter_known(env, &mut st, vs);
        if !vs.is_empty() {
            eprintln!("regression {name} fails");
        }
        st.violations.extend(vs);
    }
    tape_stream(env, &mut st, "histories", env.tier.n(1000, 20_000), 700, |tape, s| {
        let mut t = Tape::new(tape);
        let h = gen_history(&mut t);
        s.sample(1, || json!({"cwd_kind": h.cwd_kind, "stale": h.stale, "runs": h.runs, "edit_between": h.edit_between, "use_toml": h.use_toml, "tree": crate::props::c03::summarize(&h.spec)}));
        run_history(env, &h, s)
    });
    let meta = Meta {
        rule: "cases = histories of 1-3 runs of the binary: generated tree, working directory in {separate empty directory, parent of ./contracts (default path), the analysed directory itself, a sub-directory of the analysed tree}, pre-existing solstat_report.md in {absent, unrelated text, 1 MiB text, report-like text, a text of exactly the length of the coming report with different content}, directory named by --path or by a configuration file that lives in a third directory (which must stay untouched), optional edit of the tree between runs; oracle = byte snapshots (path -> type, content) of the analysed tree and of the working directory before/after each run are identical except that cwd/solstat_report.md exists afterwards, and its bytes equal the report of a run on the same tree from a fresh working directory; non-trivial = working directory inside or equal to the analysed tree with a stale report present, or >= 2 runs".into(),
        assumptions: vec!["byte equality with a fresh run relies on the report being deterministic (C13, repaired)".into(), "the scratch area (/dev/shm) is only touched by the harness".into(), "side effects are observed inside the per-history scratch area (analysed tree, its parent, working directory, configuration directory, the child's HOME / XDG directories and, for every other history, its TMPDIR); writes to absolute paths elsewhere are not observed".into()],
        extra: json!({}),
        floors: vec![
            ("working directory kinds".into(), st.sets.get("cwd_kinds").map(|s| s.len()).unwrap_or(0) as u64, 4),
            ("histories with a stale report".into(), st.counters.get("histories_with_stale_report").copied().unwrap_or(0), 40),
        ],
    };
    finish(env, st, meta)
}
