//! C19 — findings compose over the top-level items of a file.

use crate::engine::*;
use crate::gen::program;
use crate::patterns;
use crate::refmodel::detect;
use crate::refmodel::walk::{self, NodeRef};
use crate::tape::Tape;
use serde_json::{json, Value};
use solang_parser::pt;
use std::collections::{BTreeMap, BTreeSet};

const EXCLUDED: &[&str] = &["safe_math_pre_080", "safe_math_post_080"];

struct ItemSpan {
    start: usize,
    end: usize,
    pragma: bool,
}

fn spans(su: &pt::SourceUnit, len: usize) -> Vec<ItemSpan> {
    let starts: Vec<(usize, bool)> = su.0.iter().map(|p| (p.loc().start(), matches!(p, pt::SourceUnitPart::PragmaDirective(..)))).collect();
    let mut v = Vec::new();
    for (i, (s, pragma)) in starts.iter().enumerate() {
        let end = if i + 1 < starts.len() { starts[i + 1].0 } else { len };
        v.push(ItemSpan { start: *s, end, pragma: *pragma });
    }
    v
}

/// Keep item `keep` and all pragma directives; every other byte becomes a blank (newlines kept).
fn blank_except(text: &str, sp: &[ItemSpan], keep: usize) -> String {
    let mut out: Vec<u8> = text.as_bytes().to_vec();
    let mut keep_mask = vec![false; out.len()];
    for (i, s) in sp.iter().enumerate() {
        if i == keep || s.pragma {
            for k in s.start..s.end.min(out.len()) {
                keep_mask[k] = true;
            }
        }
    }
    for (k, b) in out.iter_mut().enumerate() {
        if !keep_mask[k] && *b != b'\n' {
            *b = b' ';
        }
    }
    // multi-byte characters outside kept regions were overwritten byte-wise with blanks: still valid UTF-8
    String::from_utf8(out).unwrap_or_default()
}

/// Precondition: items do not mention each other's state-variable names.
fn disjoint_names(su: &pt::SourceUnit) -> bool {
    let mut declared: Vec<BTreeSet<String>> = Vec::new();
    let mut mentioned: Vec<BTreeSet<String>> = Vec::new();
    for p in &su.0 {
        let mut d = BTreeSet::new();
        let mut m = BTreeSet::new();
        for it in walk::walk_from(NodeRef::Part(p)) {
            match it.node {
                NodeRef::CPart(pt::ContractPart::VariableDefinition(v)) => {
                    d.insert(v.name.name.clone());
                }
                NodeRef::Expr(pt::Expression::Variable(id)) => {
                    m.insert(id.name.clone());
                }
                _ => {}
            }
        }
        declared.push(d);
        mentioned.push(m);
    }
    for i in 0..declared.len() {
        for j in 0..declared.len() {
            if i != j && (!declared[i].is_disjoint(&mentioned[j]) || !declared[i].is_disjoint(&declared[j])) {
                return false;
            }
        }
    }
    true
}

pub fn check_text(check: &str, text: &str, st: &mut Stats) -> Vec<Violation> {
    let su = match crate::parse(text) {
        Some(su) => su,
        None => {
            st.count("discarded_not_parseable");
            return vec![];
        }
    };
    let sp = spans(&su, text.len());
    let items: Vec<usize> = sp.iter().enumerate().filter(|(_, s)| !s.pragma).map(|(i, _)| i).collect();
    if items.len() < 2 {
        st.count("discarded_fewer_than_two_items");
        return vec![];
    }
    if !disjoint_names(&su) {
        st.count("discarded_items_mention_each_others_state_variables");
        return vec![];
    }
    let pats: Vec<_> = patterns::all().into_iter().filter(|p| !EXCLUDED.contains(&p.name)).collect();
    // whole file
    let mut whole = Vec::new();
    for p in &pats {
        match catch(|| p.analyze(text, 0)) {
            Ok(l) => whole.push(l),
            Err(_) => {
                st.count("discarded_detector_panic_(C04_domain)");
                return vec![];
            }
        }
    }
    let mut union: Vec<BTreeSet<i32>> = vec![BTreeSet::new(); pats.len()];
    let mut per_item_count: Vec<BTreeMap<usize, usize>> = vec![BTreeMap::new(); pats.len()];
    // per item and detector: the lines found when the item is analysed alone (for the permutation relation)
    let mut alone: BTreeMap<usize, Vec<BTreeSet<i32>>> = BTreeMap::new();
    for &i in &items {
        let blanked = blank_except(text, &sp, i);
        if crate::parse(&blanked).is_none() {
            st.harness_errors.push(format!("blanked file does not parse (item {i})"));
            return vec![];
        }
        for (pi, p) in pats.iter().enumerate() {
            st.evaluations += 1;
            match catch(|| p.analyze(&blanked, 0)) {
                Ok(l) => {
                    if !l.is_empty() {
                        per_item_count[pi].insert(i, l.len());
                    }
                    alone.entry(i).or_insert_with(|| vec![BTreeSet::new(); pats.len()])[pi] = l.clone();
                    union[pi].extend(l);
                }
                Err(site) => {
                    return vec![Violation::new(check, format!("panic-on-single-item:{}:{site}", p.name), format!("{} panics when item {i} is analysed on its own", p.name), json!({"text": text, "blanked": blanked}))];
                }
            }
        }
    }
    let constructors = detect::contracts(&su).iter().filter(|c| detect::functions(c).iter().any(|f| f.ty == pt::FunctionTy::Constructor)).count();
    for (pi, p) in pats.iter().enumerate() {
        if per_item_count[pi].len() >= 2 {
            st.nontrivial(&(text, p.name));
            st.count("detector_has_findings_in_two_or_more_items");
        }
        if whole[pi] != union[pi] {
            let only_whole: Vec<_> = whole[pi].difference(&union[pi]).take(3).collect();
            let only_items: Vec<_> = union[pi].difference(&whole[pi]).take(3).collect();
            let dir = if !only_whole.is_empty() { "finding-appears-only-with-other-items-present" } else { "finding-disappears-when-other-items-are-present" };
            return vec![Violation::new(
                check,
                format!("{dir}:{}", p.name),
                format!("{}: whole file reports {:?}, union over items analysed alone is {:?} (only in whole file {:?}, only alone {:?})", p.name, whole[pi], union[pi], only_whole, only_items),
                json!({"text": text, "pattern": p.name}),
            )];
        }
    }
    if constructors >= 2 {
        st.count("files_with_constructors_in_two_items");
    }
    // second relation: reordering the items moves each item's findings with it and changes nothing else
    let first_item = items[0];
    let header_ok = sp[..first_item].iter().all(|s| s.pragma) && sp[first_item..].iter().all(|s| !s.pragma);
    let line_starts_ok = items.iter().all(|&i| sp[i].start == 0 || text.as_bytes()[sp[i].start - 1] == b'\n');
    if header_ok && line_starts_ok && text.ends_with('\n') {
        let header = &text[..sp[first_item].start];
        let header_lines = header.matches('\n').count() as i32;
        let first_line = |i: usize| crate::line_of(text, sp[i].start);
        for variant in 0..2 {
            let mut order: Vec<usize> = items.clone();
            if variant == 0 {
                order.reverse();
            } else {
                order.rotate_left(1);
            }
            if order == items {
                continue;
            }
            let mut new_text = header.to_string();
            let mut new_first: BTreeMap<usize, i32> = BTreeMap::new();
            for &i in &order {
                new_first.insert(i, 1 + new_text.matches('\n').count() as i32);
                new_text.push_str(&text[sp[i].start..sp[i].end]);
            }
            if crate::parse(&new_text).is_none() {
                st.count("permuted_file_not_parseable");
                continue;
            }
            st.count("permutations_checked");
            for (pi, p) in pats.iter().enumerate() {
                st.evaluations += 1;
                let got = match catch(|| p.analyze(&new_text, 0)) {
                    Ok(g) => g,
                    Err(site) => return vec![Violation::new(check, format!("panic-after-reordering:{}:{site}", p.name), format!("{} panics after the items were reordered", p.name), json!({"text": new_text}))],
                };
                let mut expected: BTreeSet<i32> = whole[pi].iter().copied().filter(|l| *l <= header_lines).collect();
                for &i in &items {
                    let (lo, hi) = (first_line(i), crate::line_of(text, sp[i].end.saturating_sub(1)));
                    if let Some(a) = alone.get(&i) {
                        for l in a[pi].iter().filter(|l| **l > header_lines && **l >= lo && **l <= hi) {
                            expected.insert(l - lo + new_first[&i]);
                        }
                    }
                }
                if got != expected {
                    return vec![Violation::new(
                        check,
                        format!("reordering-items-changes-findings:{}", p.name),
                        format!("{}: after reordering the top-level items the file reports {:?}; each item's own findings moved with it give {:?}", p.name, got, expected),
                        json!({"text": text, "reordered": new_text, "pattern": p.name}),
                    )];
                }
            }
        }
    }
    vec![]
}

pub fn replay(_env: &Env, check: &str, case: &Value, st: &mut Stats) -> Vec<Violation> {
    check_text(check, case.get("text").and_then(|t| t.as_str()).unwrap_or(""), st)
}

pub fn run(env: &Env) -> i32 {
    let mut st = Stats::default();
    for (name, check, case) in regression_cases(env) {
        st.count("regressions_replayed");
        let vs = replay(env, &check, &case, &mut st);
        let vs = filter_known(env, &mut st, vs);
        if !vs.is_empty() {
            eprintln!("regression {name} fails");
        }
        st.violations.extend(vs);
    }
    let fz = fuzz_inputs();
    let mut fuzz_stats = json!({"status": "not run in this tier"});
    if let Some(fz) = &fz {
        fuzz_stats = fz.stats.clone();
        enum_stream(env, &mut st, fz.inputs.len() as u64, |i, s| match crate::props::c01::text_of_fuzz_tape(&fz.inputs[i as usize].1) {
            Some(text) => {
                s.count("fuzz_inputs_replayed");
                check_text("fuzz-corpus", &text, s)
            }
            None => vec![],
        });
    }
    for (name, focus, plant, n) in [("items-general", 0u8, 120u32, env.tier.n(4000, 50_000)), ("items-declarations", 1, 70, env.tier.n(4000, 50_000)), ("items-mutability", 2, 70, env.tier.n(4000, 50_000)), ("items-selfdestruct", 3, 60, env.tier.n(4000, 50_000))] {
        let cfg = program::GenCfg { undecided: true, plant, focus, max_items: 6, max_members: 6, max_stmts: 3, inherit_earlier: focus == 2 || focus == 0, ..Default::default() };
        tape_stream(env, &mut st, name, n, 1500, |tape, s| {
            let mut t = Tape::new(tape);
            let text = program::gen_program(&mut t, &cfg);
            s.sample(1, || json!({"text": text.chars().take(700).collect::<String>()}));
            check_text(name, &text, s)
        });
    }
    let g = |k: &str| st.counters.get(k).copied().unwrap_or(0);
    let meta = Meta {
        rule: "cases = generated files with 2-6 top-level items (contracts, libraries, interfaces, free functions, structs, ...) with file-wide unique state-variable names that items do not share; oracle = for the 28 detectors other than the two SafeMath ones, analyze(file) equals the union over items of analyze(file with every byte outside that item and outside pragma directives blanked, newlines kept); non-trivial = a detector has findings in at least two different items; distinct by (text, detector)".into(),
        assumptions: vec![
            "an item extends from its first byte to the first byte of the next item; pragma directives are kept in every blanked file".into(),
            "files in which an item mentions or re-declares a state-variable name of another item are outside the domain (skipped, counted)".into(),
        ],
        extra: json!({"fuzz": fuzz_stats}),
        floors: vec![
            ("(file, detector) pairs with findings in >= 2 items".into(), g("detector_has_findings_in_two_or_more_items"), 500),
            ("files with constructors in two items".into(), g("files_with_constructors_in_two_items"), 30),
        ],
    };
    finish(env, st, meta)
}
