//! C05–C08: `must ⊆ reported ⊆ may` per detector against the reference detectors.

use crate::engine::*;
use crate::gen::{layout, matrix, program};
use crate::line_of;
use crate::patterns;
use crate::refmodel::detect::{self, File};
use crate::refmodel::walk::TEST_REACHED_CLASSES;
use crate::tape::Tape;
use serde_json::{json, Value};
use std::collections::BTreeSet;

pub fn group_of(prop: &str) -> &'static [&'static str] {
    match prop {
        "C05" => detect::C05,
        "C06" => detect::C06,
        "C07" => detect::C07,
        "C08" => detect::C08,
        "C09" => detect::C09,
        _ => &[],
    }
}

/// Run the oracle for the given detectors on one concrete text.
pub fn check_text(check: &str, prop: &str, text: &str, st: &mut Stats) -> Vec<Violation> {
    let names = group_of(prop);
    let need_names_ok = prop == "C06" || prop == "C08";
    let mut out = Vec::new();
    let su = match crate::parse(text) {
        Some(su) => su,
        None => {
            st.count("discarded_not_parseable");
            return out;
        }
    };
    let file = File::new(&su, text);
    if need_names_ok && !detect::names_ok(&file) {
        st.count("discarded_state_variable_names_not_unique_or_shadowed");
        return out;
    }
    // property-specific non-triviality ingredients
    let populated_contracts = detect::contracts(&su).iter().filter(|c| !c.parts.is_empty()).count();
    let written_state_var = {
        let w = detect::writes_in(file.items.iter());
        if prop == "C08" && detect::state_vars(&su).iter().any(|sv| w.via_tuple.contains(&sv.def.name.name)) {
            st.count("texts_with_state_variable_written_as_tuple_component");
        }
        detect::state_vars(&su).iter().any(|sv| w.direct.contains(&sv.def.name.name))
    };
    for name in names {
        let p = match patterns::by_name(name) {
            Some(p) => p,
            None => continue,
        };
        let sites = match detect::sites(name, &file) {
            Some(s) => s,
            None => continue,
        };
        st.evaluations += 1;
        let reported = match catch(|| p.analyze(text, 0)) {
            Ok(r) => r,
            Err(site) => {
                out.push(Violation::new(check, format!("panic:{site}"), format!("{name} panicked at {site}"), json!({"text": text, "pattern": name})));
                continue;
            }
        };
        let mut may: BTreeSet<i32> = BTreeSet::new();
        let mut canon = 0u64;
        let mut canon_nontest = false;
        for s in &sites {
            for a in &s.anchors {
                may.insert(line_of(text, *a));
            }
            if s.canonical {
                canon += 1;
                st.mark(&format!("forms_{name}"), s.form);
                if !TEST_REACHED_CLASSES.contains(&s.class) {
                    canon_nontest = true;
                    st.mark(&format!("nontest_classes_{name}"), s.class);
                }
            } else {
                st.count(&format!("undecided_sites_{name}"));
            }
        }
        st.add(&format!("canonical_sites_{name}"), canon);
        // lines that carry no site at all but some construct: the near-miss population
        let nontrivial = match prop {
            "C06" => canon > 0 && populated_contracts >= 2,
            "C08" => canon > 0 && (written_state_var || canon_nontest),
            _ => canon > 0 && canon_nontest,
        };
        if nontrivial {
            st.nontrivial(&(text, name));
        }
        for s in &sites {
            if !s.canonical {
                continue;
            }
            let lines: Vec<i32> = s.anchors.iter().map(|a| line_of(text, *a)).collect();
            if !lines.iter().any(|l| reported.contains(l)) {
                out.push(Violation::new(
                    check,
                    format!("missed:{name}:{}", s.form),
                    format!("{name}: canonical instance '{}' beginning on line {} (slot {}) is not reported; reported lines {:?}", s.form, lines[0], s.class, reported),
                    json!({"text": text, "pattern": name, "form": s.form, "class": s.class, "line": lines[0]}),
                ));
                break;
            }
        }
        for l in &reported {
            if !may.contains(l) {
                let line_text = text.split('\n').nth((*l as usize).saturating_sub(1)).unwrap_or("").trim().to_string();
                out.push(Violation::new(
                    check,
                    format!("spurious:{name}"),
                    format!("{name}: line {l} is reported but no construct matching the pattern begins there: `{}`", line_text.chars().take(120).collect::<String>()),
                    json!({"text": text, "pattern": name, "line": l, "line_text": line_text}),
                ));
                break;
            }
        }
    }
    out
}

/// Generated program under several layouts.
fn program_case(prop: &str, tape: &[u8], cfg: &program::GenCfg, st: &mut Stats) -> Vec<Violation> {
    let mut t = Tape::new(tape);
    let base = program::gen_program(&mut t, cfg);
    let toks = match layout::tokenize(&base) {
        Some(t) => t,
        None => return vec![],
    };
    if crate::parse(&base).is_none() {
        st.count("generator_rejected_by_parser");
        return vec![];
    }
    st.count("programs");
    let mut texts = vec![base.clone(), layout::fixed_layout(&toks, layout::Fixed::OnePerLine)];
    let (r, _, _) = layout::random_layout(&toks, &mut t);
    if layout::same_tokens(&r, &toks) {
        texts.push(r);
    }
    st.sample(2, || json!({"text": base.chars().take(900).collect::<String>()}));
    for txt in &texts {
        let v = check_text("programs", prop, txt, st);
        if !v.is_empty() {
            return v;
        }
    }
    vec![]
}

pub fn replay(env: &Env, check: &str, case: &Value, st: &mut Stats) -> Vec<Violation> {
    let text = case.get("text").and_then(|t| t.as_str()).unwrap_or("");
    check_text(check, &env.prop, text, st)
}

pub fn run(env: &Env) -> i32 {
    let prop = env.prop.clone();
    let names = group_of(&prop);
    let need = prop == "C06" || prop == "C08";
    let mut st = Stats::default();
    // oracle self-checks (a failure is a harness error, exit 2, never a violation)
    {
        use crate::refmodel::detect::{literal_pow2, Pow2};
        for n in 0u32..=70_000 {
            let want = if n == 1 { Pow2::Undecided } else if n > 1 && n.is_power_of_two() { Pow2::Yes } else { Pow2::No };
            if literal_pow2(&n.to_string(), "") != want {
                st.harness_errors.push(format!("self-check: literal_pow2({n}) is wrong"));
                break;
            }
        }
        let checks: [(&str, &str, Pow2); 8] = [
            ("340282366920938463463374607431768211456", "", Pow2::Yes),
            ("340282366920938463463374607431768211457", "", Pow2::No),
            ("1", "18", Pow2::No),
            ("2", "3", Pow2::No),
            ("2", "0", Pow2::Undecided),
            ("20", "-1", Pow2::Undecided),
            ("5", "-3", Pow2::No),
            ("0", "", Pow2::No),
        ];
        for (i, e, want) in checks {
            if literal_pow2(i, e) != want {
                st.harness_errors.push(format!("self-check: literal_pow2({i}e{e}) is wrong"));
            }
        }
    }
    for (name, check, case) in regression_cases(env) {
        st.count("regressions_replayed");
        let vs = replay(env, &check, &case, &mut st);
        let vs = filter_known(env, &mut st, vs);
        if !vs.is_empty() {
            eprintln!("regression {name} fails");
        }
        st.violations.extend(vs);
    }
    // slot matrix: every slot x marker, in the given one-line form and one token per line
    let inst = matrix::instances();
    enum_stream(env, &mut st, inst.len() as u64, |i, s| {
        let (_, text) = &inst[i as usize];
        let toks = match layout::tokenize(text) {
            Some(t) => t,
            None => return vec![],
        };
        if crate::parse(text).is_none() {
            return vec![];
        }
        s.count("matrix_instances");
        let l1 = layout::fixed_layout(&toks, layout::Fixed::OnePerLine);
        check_text("matrix", &prop, &l1, s)
    });
    let fz = fuzz_inputs();
    let mut fuzz_stats = json!({"status": "not run in this tier"});
    if let Some(fz) = &fz {
        fuzz_stats = fz.stats.clone();
        enum_stream(env, &mut st, fz.inputs.len() as u64, |i, s| match crate::props::c01::text_of_fuzz_tape(&fz.inputs[i as usize].1) {
            Some(text) => {
                s.count("fuzz_inputs_replayed");
                check_text("fuzz-corpus", &prop, &text, s)
            }
            None => vec![],
        });
    }
    // deep nesting: instances of every group's patterns 70 .. 300 levels below the file root
    {
        let mut deep: Vec<String> = Vec::new();
        for n in [70usize, 140, 300] {
            for wrap in 0..3 {
                let inner = "s1 = ( a >= b ) ? arr . length : 1024 * a / b * c ;\np1 [ 0 ] = 1 ;\ni ++ ;\nrequire ( a && b , \"m\" ) ;\nif ( a == address ( 0 ) ) { }\ntoken . transfer ( a , b ) ;\nselfdestruct ( payable ( msg . sender ) ) ;\n";
                let (open, close) = match wrap {
                    0 => ("{\n".to_string(), "}\n".to_string()),
                    1 => ("if ( c ) {\n".to_string(), "}\n".to_string()),
                    _ => ("for ( ; ; ) {\n".to_string(), "}\n".to_string()),
                };
                let body = format!("{}{}{}", open.repeat(n), inner, close.repeat(n));
                let parens = format!("y = {} s1 = 7 {} ;\n", "( ".repeat(n), " )".repeat(n));
                deep.push(format!("pragma solidity ^0.8.17 ;\ncontract D {{\nuint256 s1 ;\nuint256 s2 ;\nuint256 public s3 ;\nfunction kill ( uint256 [ ] memory p1 , string memory p2 ) public {{\n{body}{parens}}}\nconstructor ( ) {{\ns2 = 1 ;\n}}\n}}\n"));
            }
        }
        enum_stream(env, &mut st, deep.len() as u64, |i, s| {
            s.count("deep_programs");
            check_text("deep", &prop, &deep[i as usize], s)
        });
    }
    if prop == "C06" {
        // wide contracts: n functions before a constructor (boundaries of small counters)
        let ns: Vec<usize> = vec![1, 2, 127, 128, 255, 256, 257, 511, 512, 513, 1000];
        enum_stream(env, &mut st, ns.len() as u64 * 2, |i, s| {
            let n = ns[(i / 2) as usize];
            let mut text = String::from("pragma solidity 0.8.17 ;\ncontract Wide {\n");
            for k in 0..n {
                text.push_str(&format!("function _g{k} ( ) internal {{ }}\n"));
            }
            text.push_str("constructor ( ) { }\n}\n");
            if i % 2 == 1 {
                // a second contract whose constructor is correctly placed
                text.push_str("contract Other {\nconstructor ( ) { }\nfunction h ( ) external payable { }\n}\n");
            }
            s.count("wide_contracts");
            check_text("wide", &prop, &text, s)
        });
    }
    // random programs with planted forms; no undecided forms in the detector streams
    let focus = match prop.as_str() {
        "C06" => 1,
        "C08" => 2,
        "C07" => 3,
        _ => 0,
    };
    let cfg = program::GenCfg { undecided: false, plant: 130, ..Default::default() };
    if focus != 0 {
        let cfg_f = program::GenCfg { undecided: false, plant: 60, focus, max_members: 12, max_items: 5, max_stmts: 4, cross_contract_names: prop == "C08", ..Default::default() };
        tape_stream(env, &mut st, "programs-focused", env.tier.n(16_000, 250_000), 1600, |tape, s| program_case(&prop, tape, &cfg_f, s));
    }
    tape_stream(env, &mut st, "programs", env.tier.n(16_000, 200_000), 1400, |tape, s| program_case(&prop, tape, &cfg, s));
    // a stream that does contain undecided forms: only `may` is relaxed, everything else still checked
    let cfg_u = program::GenCfg { undecided: true, plant: 110, max_depth: 8, ..Default::default() };
    tape_stream(env, &mut st, "programs-with-undecided-forms", env.tier.n(6000, 80_000), 1400, |tape, s| program_case(&prop, tape, &cfg_u, s));

    let mut floors = Vec::new();
    for n in names {
        floors.push((format!("canonical sites of {n}"), st.counters.get(&format!("canonical_sites_{n}")).copied().unwrap_or(0), 200));
    }
    if prop == "C08" {
        floors.push(("texts with a state variable written as a component of a tuple assignment".into(), st.counters.get("texts_with_state_variable_written_as_tuple_component").copied().unwrap_or(0), 200));
    }
    let meta = Meta {
        rule: format!("cases = (laid-out program, detector) for the detectors {:?}; programs from the slot matrix (one token per line) and tape-decoded random programs with planted canonical forms and near misses (DESIGN section 8), each in its generated layout, one token per line and one random layout; oracle = reference detectors: every canonical instance's line must be reported and every reported line must carry a canonical or undecided instance; non-trivial = the file has a canonical instance of the detector and (C05/C07) that instance sits in a position class outside those the repository's tests reach, (C06) the file has at least two populated contracts/libraries/interfaces, (C08) the file also directly writes some state variable or the instance sits in such a position class; distinct by (text, detector)", names),
        assumptions: vec![
            "canonical / clearly non-matching / undecided forms per detector are fixed in DESIGN.md section 8; undecided forms only relax the 'may' set".into(),
            if need { "files in which state-variable names are not unique or are shadowed are outside the property's domain and skipped (counted)".into() } else { "occurrences inside inline assembly are outside the domain".into() },
        ],
        extra: json!({"fuzz": fuzz_stats}),
        floors,
    };
    finish(env, st, meta)
}
