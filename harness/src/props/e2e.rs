//! Helpers and sampled end-to-end checks through the solstat binary.

use crate::engine::*;
use crate::gen::tree::{self, Entry, Scratch};
use crate::patterns;
use crate::refmodel::report::{parse_report, Parsed};
use crate::tape::Tape;
use serde_json::json;
use std::collections::BTreeMap;
use std::path::Path;
use std::process::Command;

pub struct RunOut {
    pub code: Option<i32>,
    pub stderr: String,
    pub report: Option<Vec<u8>>,
}

/// Run the binary with `args` in `cwd`; returns exit status and the report it left in `cwd`.
pub fn run_solstat(env: &Env, cwd: &Path, args: &[&str]) -> RunOut {
    run_solstat_tmp(env, cwd, args, None)
}

/// `tmpdir`: the child's TMPDIR (None = inherit; the default lives on another file system than /dev/shm)
pub fn run_solstat_tmp(env: &Env, cwd: &Path, args: &[&str], tmpdir: Option<&Path>) -> RunOut {
    match tmpdir {
        Some(t) => run_solstat_env(env, cwd, args, &[("TMPDIR", t)]),
        None => run_solstat_env(env, cwd, args, &[]),
    }
}

/// `vars`: environment variables (directories) set for the child
pub fn run_solstat_env(env: &Env, cwd: &Path, args: &[&str], vars: &[(&str, &Path)]) -> RunOut {
    let mut cmd = Command::new(env.solstat_bin());
    cmd.args(args).current_dir(cwd).env("NO_COLOR", "1");
    for (k, v) in vars {
        cmd.env(k, v);
    }
    let out = cmd.output();
    match out {
        Ok(o) => {
            use std::os::unix::process::ExitStatusExt;
            if o.status.signal() == Some(9) {
                // killed from outside (out-of-memory killer, a supervisor): says nothing about the property
                eprintln!("HARNESS-ERROR: the solstat child process was killed by SIGKILL; result inconclusive");
                std::process::exit(2);
            }
            RunOut {
                code: o.status.code(),
                stderr: String::from_utf8_lossy(&o.stderr).chars().take(600).collect(),
                report: std::fs::read(cwd.join("solstat_report.md")).ok(),
            }
        }
        Err(e) => {
            // the binary could not be started at all (missing, not executable, out of processes): not a property violation
            eprintln!("HARNESS-ERROR: cannot execute {}: {e}", env.solstat_bin().display());
            std::process::exit(2);
        }
    }
}

/// Expected (pattern, file name, line) multiset of a tree from per-file library analysis.
pub fn expected_of_tree(entries: &[Entry], pats: &[patterns::P]) -> Result<BTreeMap<(String, String, i64), usize>, String> {
    let mut files = Vec::new();
    tree::eligible_files(entries, "", &mut files);
    let mut m = BTreeMap::new();
    for (_, name, text) in &files {
        for p in pats {
            let lines = catch(|| p.analyze(text, 0))?;
            for l in lines {
                *m.entry((p.name.to_string(), name.clone(), l as i64)).or_insert(0) += 1;
            }
        }
    }
    Ok(m)
}

pub fn binary_tree_case(env: &Env, tape: &[u8], st: &mut Stats, with: impl FnMut(&[Entry], &Parsed, &BTreeMap<(String, String, i64), usize>, &mut Stats) -> Vec<Violation>) -> Vec<Violation> {
    let mut t = Tape::new(tape);
    let mut skipped = 0;
    let spec = tree::gen_tree(&mut t, &tree::TreeCfg::default(), &mut skipped);
    binary_spec_case(env, &spec, st, with)
}

pub fn binary_spec_case(env: &Env, spec: &[Entry], st: &mut Stats, mut with: impl FnMut(&[Entry], &Parsed, &BTreeMap<(String, String, i64), usize>, &mut Stats) -> Vec<Violation>) -> Vec<Violation> {
    // three runs in the *same* working directory: the tree; the tree with every eligible file's lines
    // shifted by one (a report of mostly the same length with other content); about half of the files
    // removed (a shorter report).  Each report must match its own tree.
    let shifted = map_eligible(spec, &mut |_, bytes| {
        let mut v = b"\n".to_vec();
        v.extend_from_slice(bytes);
        Some(v)
    });
    let mut k = 0usize;
    let halved = map_eligible(spec, &mut |_, bytes| {
        k += 1;
        if k % 2 == 0 {
            None
        } else {
            Some(bytes.to_vec())
        }
    });
    let sc = Scratch::new("e2e");
    let cwd = sc.path.join("cwd");
    std::fs::create_dir_all(&cwd).unwrap();
    let pats = patterns::all();
    for (round, variant) in [spec.to_vec(), shifted, halved].into_iter().enumerate() {
        let expected = match expected_of_tree(&variant, &pats) {
            Ok(e) => e,
            Err(_) => {
                st.count("discarded_detector_panic_(C04_domain)");
                return vec![];
            }
        };
        let root = sc.path.join(format!("tree{round}"));
        std::fs::create_dir_all(&root).unwrap();
        tree::materialize(&variant, &root);
        let out = run_solstat(env, &cwd, &["--path", root.to_str().unwrap()]);
        st.count("binary_runs");
        let case = json!({"tree": tree::to_json(spec), "run_in_same_directory": round});
        if out.code != Some(0) {
            return vec![Violation::new("binary", "binary:nonzero-exit", format!("solstat exited with {:?}: {}", out.code, out.stderr), case)];
        }
        let report = match out.report {
            Some(r) => String::from_utf8_lossy(&r).to_string(),
            None => return vec![Violation::new("binary", "binary:no-report", "solstat wrote no solstat_report.md", case)],
        };
        let parsed = parse_report(&report);
        let mut vs = with(&variant, &parsed, &expected, st);
        if !vs.is_empty() {
            for v in vs.iter_mut() {
                if round > 0 {
                    v.sig = format!("{}:after-earlier-run-in-same-directory", v.sig);
                    v.case["run_in_same_directory"] = json!(round);
                }
            }
            return vs;
        }
    }
    vec![]
}

/// Map the content of every eligible file (None = drop the file); other entries unchanged.
pub fn map_eligible(entries: &[Entry], f: &mut dyn FnMut(&str, &[u8]) -> Option<Vec<u8>>) -> Vec<Entry> {
    let mut out = Vec::new();
    for e in entries {
        match &e.kind {
            tree::Kind::File(b) => {
                if tree::eligible(&e.name) {
                    if let Some(nb) = f(&e.name, b) {
                        out.push(Entry { name: e.name.clone(), class: e.class, kind: tree::Kind::File(nb) });
                    }
                } else {
                    out.push(e.clone());
                }
            }
            tree::Kind::Dir(c) => out.push(Entry { name: e.name.clone(), class: e.class, kind: tree::Kind::Dir(map_eligible(c, f)) }),
            tree::Kind::Link(c) => out.push(Entry { name: e.name.clone(), class: e.class, kind: tree::Kind::Link(map_eligible(c, f)) }),
        }
    }
    out
}

/// C11 end to end: entries of the report = union of per-file analyses of the tree.
pub fn report_roundtrip(env: &Env, st: &mut Stats, cases: u32) {
    if !env.solstat_bin().exists() {
        st.harness_errors.push(format!("solstat binary not built at {}", env.solstat_bin().display()));
        return;
    }
    tape_stream(env, st, "c11-binary", cases, 600, |tape, s| binary_tree_case(env, tape, s, c11_with));
}

pub fn c11_with(spec: &[Entry], parsed: &Parsed, expected: &BTreeMap<(String, String, i64), usize>, s: &mut Stats) -> Vec<Violation> {
    {
        {
            let got = parsed.multiset();
            if !expected.is_empty() {
                s.nontrivial(&format!("{:?}", expected));
            }
            if !parsed.problems.is_empty() {
                return vec![Violation::new("c11-binary", "binary:structure", format!("report structure: {}", parsed.problems[0]), json!({"tree": tree::to_json(spec)}))];
            }
            if &got != expected {
                let missing: Vec<_> = expected.iter().filter(|(k, n)| got.get(*k).copied().unwrap_or(0) < **n).take(3).collect();
                let extra: Vec<_> = got.iter().filter(|(k, n)| expected.get(*k).copied().unwrap_or(0) < **n).take(3).collect();
                return vec![Violation::new(
                    "c11-binary",
                    if !extra.is_empty() && missing.is_empty() { "binary:entry-not-a-finding" } else { "binary:entry-missing" },
                    format!("solstat_report.md differs from the per-file analyses: missing {:?}, extra {:?}", missing, extra),
                    json!({"tree": tree::to_json(spec)}),
                )];
            }
            vec![]
        }
    }
}

/// C12 end to end: a category part is present iff that category has findings.
pub fn category_presence(env: &Env, st: &mut Stats, cases: u32) {
    if !env.solstat_bin().exists() {
        st.harness_errors.push(format!("solstat binary not built at {}", env.solstat_bin().display()));
        return;
    }
    tape_stream(env, st, "c12-binary", cases, 600, |tape, s| binary_tree_case(env, tape, s, c12_with));
}

pub fn c12_with(spec: &[Entry], parsed: &Parsed, expected: &BTreeMap<(String, String, i64), usize>, s: &mut Stats) -> Vec<Violation> {
    {
        {
            let has = |cat: &str| expected.keys().any(|(p, _, _)| patterns::by_name(p).map(|p| p.category() == cat).unwrap_or(false));
            let mut out = Vec::new();
            let case = json!({"tree": tree::to_json(spec)});
            s.mark("category_presence_combinations", &format!("v={} o={} q={}", has("vulnerabilities"), has("optimizations"), has("qa")));
            if has("vulnerabilities") != parsed.total_vulnerabilities.is_some() {
                out.push(Violation::new("c12-binary", "binary:vulnerability-part-presence", format!("vulnerability findings exist = {}, vulnerability overview present = {}", has("vulnerabilities"), parsed.total_vulnerabilities.is_some()), case.clone()));
            }
            if has("optimizations") != parsed.total_optimizations.is_some() {
                out.push(Violation::new("c12-binary", "binary:optimization-part-presence", format!("optimisation findings exist = {}, optimisation overview present = {}", has("optimizations"), parsed.total_optimizations.is_some()), case.clone()));
            }
            let qa_sections = parsed.sections.iter().any(|s| patterns::by_name(s).map(|p| p.category() == "qa").unwrap_or(false));
            if has("qa") != qa_sections {
                out.push(Violation::new("c12-binary", "binary:qa-part-presence", format!("QA findings exist = {}, QA sections present = {}", has("qa"), qa_sections), case.clone()));
            }
            let count = |cat: &str| -> i64 { expected.iter().filter(|((p, _, _), _)| patterns::by_name(p).map(|p| p.category() == cat).unwrap_or(false)).map(|(_, n)| *n as i64).sum() };
            if let Some(t) = parsed.total_vulnerabilities {
                if t != count("vulnerabilities") {
                    out.push(Violation::new("c12-binary", "binary:vulnerabilities-total", format!("the overview prints {t} vulnerabilities, the tree has {}", count("vulnerabilities")), case.clone()));
                }
            }
            if let Some(t) = parsed.total_optimizations {
                if t != count("optimizations") {
                    out.push(Violation::new("c12-binary", "binary:optimizations-total", format!("the overview prints {t} optimisations, the tree has {}", count("optimizations")), case.clone()));
                }
            }
            if !has("vulnerabilities") || !has("qa") || !has("optimizations") {
                s.nontrivial(&format!("{:?}", expected));
            }
            out
        }
    }
}

pub fn replay_tree(env: &Env, check: &str, case: &serde_json::Value, st: &mut Stats) -> Vec<Violation> {
    let spec = tree::from_json(case.get("tree").unwrap_or(&serde_json::Value::Null));
    if check.starts_with("c12") {
        binary_spec_case(env, &spec, st, c12_with)
    } else {
        binary_spec_case(env, &spec, st, c11_with)
    }
}
