pub mod c01;

use crate::engine::{Env, Stats, Violation};
use serde_json::Value;

pub fn run(env: &Env) -> Option<i32> {
    Some(match env.prop.as_str() {
        "C01" => c01::run(env),
        _ => return None,
    })
}

pub fn replay(env: &Env, check: &str, case: &Value, st: &mut Stats) -> Option<Vec<Violation>> {
    Some(match env.prop.as_str() {
        "C01" => c01::replay(env, check, case, st),
        _ => return None,
    })
}
