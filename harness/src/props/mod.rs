pub mod c01;
pub mod c02;
pub mod c04;

use crate::engine::{Env, Stats, Violation};
use serde_json::Value;

pub fn run(env: &Env) -> Option<i32> {
    Some(match env.prop.as_str() {
        "C01" => c01::run(env),
        "C02" => c02::run(env),
        "C04" => c04::run(env),
        _ => return None,
    })
}

pub fn replay(env: &Env, check: &str, case: &Value, st: &mut Stats) -> Option<Vec<Violation>> {
    Some(match env.prop.as_str() {
        "C01" => c01::replay(env, check, case, st),
        "C02" => c02::replay(env, check, case, st),
        "C04" => c04::replay(env, check, case, st),
        _ => return None,
    })
}
