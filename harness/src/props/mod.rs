pub mod c01;
pub mod c02;
pub mod c03;
pub mod c04;
pub mod c09;
pub mod c10;
pub mod c11;
pub mod c13;
pub mod c14;
pub mod c18;
pub mod c15;
pub mod c17;
pub mod c19;
pub mod detectors;
pub mod e2e;

use crate::engine::{Env, Stats, Violation};
use serde_json::Value;

pub fn run(env: &Env) -> Option<i32> {
    Some(match env.prop.as_str() {
        "C01" => c01::run(env),
        "C02" => c02::run(env),
        "C03" => c03::run_c03(env),
        "C04" => c04::run(env),
        "C05" | "C06" | "C07" | "C08" => detectors::run(env),
        "C09" => c09::run(env),
        "C10" => c10::run(env),
        "C11" => c11::run_c11(env),
        "C12" => c11::run_c12(env),
        "C13" => c13::run(env),
        "C14" => c14::run(env),
        "C15" => c15::run(env),
        "C18" => c18::run(env),
        "C16" => c03::run_c16(env),
        "C17" => c17::run(env),
        "C19" => c19::run(env),
        _ => return None,
    })
}

pub fn replay(env: &Env, check: &str, case: &Value, st: &mut Stats) -> Option<Vec<Violation>> {
    Some(match env.prop.as_str() {
        "C01" => c01::replay(env, check, case, st),
        "C02" => c02::replay(env, check, case, st),
        "C03" | "C16" => c03::replay(env, check, case, st),
        "C04" => c04::replay(env, check, case, st),
        "C05" | "C06" | "C07" | "C08" => detectors::replay(env, check, case, st),
        "C09" => c09::replay(env, check, case, st),
        "C10" => c10::replay(env, check, case, st),
        "C11" | "C12" => c11::replay(env, check, case, st),
        "C13" => c13::replay(env, check, case, st),
        "C14" => c14::replay(env, check, case, st),
        "C15" => c15::replay(env, check, case, st),
        "C18" => c18::replay(env, check, case, st),
        "C17" => c17::replay(env, check, case, st),
        "C19" => c19::replay(env, check, case, st),
        _ => return None,
    })
}
