//! Reference detectors, written from the property statements and DESIGN section 8
//! over the reference traversal.  Each returns *sites*: a site has one or more
//! anchor offsets (the token(s) whose line may carry the report) and is either
//! canonical (must be reported) or undecided (may be reported).  Everything that
//! is not a site must not be reported.

use crate::refmodel::walk::{self, Item, NodeRef, K};
use solang_parser::pt::{self, CodeLocation, Expression as E};
use std::collections::{BTreeMap, BTreeSet, HashSet};

#[derive(Clone, Debug)]
pub struct Site {
    pub anchors: Vec<usize>,
    pub canonical: bool,
    /// form id, for signatures and evidence ("postfix", "prefix-checked", ...)
    pub form: &'static str,
    /// position class of the construct (slot of its parent)
    pub class: &'static str,
}

fn site(anchor: usize, canonical: bool, form: &'static str, class: &'static str) -> Site {
    Site { anchors: vec![anchor], canonical, form, class }
}

pub struct File<'a> {
    pub su: &'a pt::SourceUnit,
    pub items: Vec<Item<'a>>,
    pub text: &'a str,
}

impl<'a> File<'a> {
    pub fn new(su: &'a pt::SourceUnit, text: &'a str) -> File<'a> {
        File { su, items: walk::walk_source_unit(su), text }
    }
    fn exprs(&self) -> impl Iterator<Item = (&'a E, &Item<'a>)> + '_ {
        self.items.iter().filter_map(|it| it.node.expr().map(|e| (e, it)))
    }
}

fn var_name(e: &E) -> Option<&str> {
    if let E::Variable(id) = e {
        Some(id.name.as_str())
    } else {
        None
    }
}

fn is_elementary_type_expr(e: &E) -> bool {
    // a type keyword usable as a conversion: address, payable, uintN, bytesN, bool, string, bytes ...
    if let E::Type(_, t) = e {
        matches!(
            t,
            pt::Type::Address | pt::Type::AddressPayable | pt::Type::Payable | pt::Type::Bool | pt::Type::String | pt::Type::Int(_) | pt::Type::Uint(_) | pt::Type::Bytes(_) | pt::Type::DynamicBytes | pt::Type::Rational
        )
    } else {
        false
    }
}

// ---------------------------------------------------------------------------- numbers

fn powers_of_two() -> &'static HashSet<String> {
    use std::sync::OnceLock;
    static T: OnceLock<HashSet<String>> = OnceLock::new();
    T.get_or_init(|| {
        // decimal strings of 2^0 .. 2^4096 by repeated doubling
        let mut set = HashSet::new();
        let mut digits: Vec<u8> = vec![1]; // little endian
        for _ in 0..=4096 {
            set.insert(digits.iter().rev().map(|d| (b'0' + d) as char).collect::<String>());
            let mut carry = 0;
            for d in digits.iter_mut() {
                let v = *d * 2 + carry;
                *d = v % 10;
                carry = v / 10;
            }
            if carry > 0 {
                digits.push(carry);
            }
        }
        set
    })
}

#[derive(PartialEq, Eq, Debug, Clone, Copy)]
pub enum Pow2 {
    /// decimal literal without exponent whose value is 2^k, k >= 1
    Yes,
    /// clearly not a power of two
    No,
    /// the statement does not decide (value 1, exponent forms equal to a power of two, huge literals)
    Undecided,
}

pub fn literal_pow2(int: &str, exp: &str) -> Pow2 {
    let digits: String = int.chars().filter(|c| c.is_ascii_digit()).collect();
    let trimmed = digits.trim_start_matches('0');
    if digits.len() > 1200 {
        return Pow2::Undecided;
    }
    if exp.is_empty() {
        if trimmed.is_empty() {
            return Pow2::No;
        }
        if trimmed == "1" {
            return Pow2::Undecided;
        }
        return if powers_of_two().contains(trimmed) { Pow2::Yes } else { Pow2::No };
    }
    // with an exponent: value = int * 10^exp
    let e: i64 = match exp.parse() {
        Ok(e) => e,
        Err(_) => return Pow2::Undecided,
    };
    if trimmed.is_empty() {
        return Pow2::No; // zero
    }
    if e == 0 {
        return if powers_of_two().contains(trimmed) { Pow2::Undecided } else { Pow2::No };
    }
    if e > 0 {
        return Pow2::No; // a non-zero multiple of ten
    }
    // negative exponent: an integer only if enough trailing zeros
    let z = (-e) as usize;
    if trimmed.len() > z && trimmed[trimmed.len() - z..].chars().all(|c| c == '0') {
        let v = &trimmed[..trimmed.len() - z];
        return if powers_of_two().contains(v) { Pow2::Undecided } else { Pow2::No };
    }
    Pow2::No
}

fn numeric_eq(a: &str, b: &str) -> bool {
    a.trim_start_matches('0') == b.trim_start_matches('0')
}

// ---------------------------------------------------------------------------- C05

pub fn address_balance(f: &File) -> Vec<Site> {
    let mut out = Vec::new();
    for (e, it) in f.exprs() {
        if let E::MemberAccess(loc, obj, id) = e {
            if id.name != "balance" {
                continue;
            }
            if let E::FunctionCall(_, callee, args) = obj.as_ref() {
                if let E::Type(_, t) = callee.as_ref() {
                    match t {
                        pt::Type::Address => out.push(site(loc.start(), args.len() == 1, if args.len() == 1 { "address(E).balance" } else { "address-arity" }, it.class)),
                        pt::Type::Payable | pt::Type::AddressPayable => out.push(site(loc.start(), false, "payable(E).balance", it.class)),
                        _ => {}
                    }
                }
            }
        }
    }
    out
}

/// 2 = canonical address(0); 1 = undecided zero-address look-alike; 0 = not
fn address_zero_operand(e: &E) -> u8 {
    match e {
        E::FunctionCall(_, callee, args) => {
            if let E::Type(_, t) = callee.as_ref() {
                let addr = matches!(t, pt::Type::Address);
                let payable = matches!(t, pt::Type::Payable | pt::Type::AddressPayable);
                if !addr && !payable {
                    return 0;
                }
                if args.is_empty() {
                    return 1;
                }
                let zeroish = match &args[0] {
                    E::NumberLiteral(_, int, exp) => {
                        if int == "0" && exp.is_empty() {
                            2
                        } else if int.chars().all(|c| c == '0') {
                            1
                        } else {
                            0
                        }
                    }
                    E::HexNumberLiteral(_, h) => {
                        if h.trim_start_matches("0x").chars().all(|c| c == '0' || c == '_') {
                            1
                        } else {
                            0
                        }
                    }
                    E::Parenthesis(_, inner) => {
                        if matches!(inner.as_ref(), E::NumberLiteral(_, int, _) if int.chars().all(|c| c == '0')) {
                            1
                        } else {
                            0
                        }
                    }
                    _ => 0,
                };
                if zeroish == 0 {
                    return 0;
                }
                if addr && args.len() == 1 && zeroish == 2 {
                    return 2;
                }
                return 1;
            }
            0
        }
        E::Parenthesis(_, inner) => {
            if address_zero_operand(inner) > 0 {
                1
            } else {
                0
            }
        }
        _ => 0,
    }
}

pub fn address_zero(f: &File) -> Vec<Site> {
    let mut out = Vec::new();
    for (e, it) in f.exprs() {
        if let E::Equal(loc, l, r) | E::NotEqual(loc, l, r) = e {
            let c = address_zero_operand(l).max(address_zero_operand(r));
            if c == 2 {
                out.push(site(loc.start(), true, "E==address(0)", it.class));
            } else if c == 1 {
                out.push(site(loc.start(), false, "zero-address-look-alike", it.class));
            }
        }
    }
    out
}

fn bool_operand(e: &E) -> u8 {
    match e {
        E::BoolLiteral(..) => 2,
        E::Parenthesis(_, inner) => {
            if bool_operand(inner) > 0 {
                1
            } else {
                0
            }
        }
        _ => 0,
    }
}

pub fn bool_equals_bool(f: &File) -> Vec<Site> {
    let mut out = Vec::new();
    for (e, it) in f.exprs() {
        if let E::Equal(loc, l, r) | E::NotEqual(loc, l, r) = e {
            let c = bool_operand(l).max(bool_operand(r));
            if c == 2 {
                out.push(site(loc.start(), true, "E==bool", it.class));
            } else if c == 1 {
                out.push(site(loc.start(), false, "E==(bool)", it.class));
            }
        }
    }
    out
}

fn ten_ops(e: &E) -> Option<(&E, &E)> {
    match e {
        E::Add(_, l, r) | E::Subtract(_, l, r) | E::Multiply(_, l, r) | E::Divide(_, l, r) | E::Modulo(_, l, r) | E::ShiftLeft(_, l, r) | E::ShiftRight(_, l, r) | E::BitwiseAnd(_, l, r) | E::BitwiseOr(_, l, r) | E::BitwiseXor(_, l, r) => Some((l, r)),
        _ => None,
    }
}

pub fn assign_update_array_value(f: &File) -> Vec<Site> {
    let mut out = Vec::new();
    for (e, it) in f.exprs() {
        if let E::Assign(loc, lhs, rhs) = e {
            let (base, idx) = match lhs.as_ref() {
                E::ArraySubscript(_, b, Some(i)) => (b.as_ref(), i.as_ref()),
                _ => continue,
            };
            let (l, r) = match ten_ops(rhs) {
                Some(p) => p,
                None => continue,
            };
            let lhs_name = var_name(base);
            let lhs_lit = match idx {
                E::NumberLiteral(_, n, exp) if exp.is_empty() => Some(n.as_str()),
                _ => None,
            };
            // canonical: a[N] = a[N] (op) E
            let canonical = match (lhs_name, lhs_lit, l) {
                (Some(a), Some(n), E::ArraySubscript(_, b2, Some(i2))) => var_name(b2) == Some(a) && matches!(i2.as_ref(), E::NumberLiteral(_, n2, e2) if e2.is_empty() && n2 == n),
                _ => false,
            };
            if canonical {
                out.push(site(loc.start(), true, "a[N]=a[N]op", it.class));
                continue;
            }
            // clearly non-matching operand?
            let clearly_not = |o: &E| -> bool {
                match o {
                    E::ArraySubscript(_, b2, i2) => {
                        match (lhs_name, var_name(b2)) {
                            (Some(a), Some(b)) if a != b => return true,
                            _ => {}
                        }
                        if let (Some(n), Some(i2)) = (lhs_lit, i2) {
                            if let E::NumberLiteral(_, n2, e2) = i2.as_ref() {
                                if e2.is_empty() && !numeric_eq(n, n2) && lhs_name.is_some() && var_name(b2) == lhs_name {
                                    return true;
                                }
                            }
                        }
                        false
                    }
                    _ => true,
                }
            };
            if !(clearly_not(l) && clearly_not(r)) {
                out.push(site(loc.start(), false, "array-update-variant", it.class));
            }
        }
    }
    out
}

pub fn cache_array_length(f: &File) -> Vec<Site> {
    let mut out = Vec::new();
    for (e, it) in f.exprs() {
        if let E::MemberAccess(loc, _, id) = e {
            if id.name == "length" && it.ctx.for_cond > 0 {
                out.push(site(loc.start(), true, ".length-in-for-condition", it.class));
            }
        }
    }
    out
}

pub fn increment_decrement(f: &File) -> Vec<Site> {
    let mut out = Vec::new();
    for (e, it) in f.exprs() {
        match e {
            E::PostIncrement(loc, _) | E::PostDecrement(loc, _) => out.push(site(loc.start(), true, "postfix", it.class)),
            E::PreIncrement(loc, _) | E::PreDecrement(loc, _) => {
                if it.ctx.unchecked == 0 {
                    out.push(site(loc.start(), true, "prefix-checked", it.class));
                }
            }
            _ => {}
        }
    }
    out
}

fn contains_kind(e: &E, k: K) -> bool {
    walk::walk_from(NodeRef::Expr(e)).iter().any(|i| i.kind == k)
}

pub fn multiple_require(f: &File) -> Vec<Site> {
    let mut out = Vec::new();
    for (e, it) in f.exprs() {
        if let E::FunctionCall(loc, callee, args) = e {
            if var_name(callee) != Some("require") {
                continue;
            }
            if args.iter().any(|a| matches!(a, E::And(..))) {
                out.push(site(loc.start(), true, "require(A&&B)", it.class));
            } else if args.iter().any(|a| contains_kind(a, K::And)) {
                out.push(site(loc.start(), false, "require(nested &&)", it.class));
            }
        }
    }
    out
}

pub fn optimal_comparison(f: &File) -> Vec<Site> {
    let mut out = Vec::new();
    for (e, it) in f.exprs() {
        if let E::MoreEqual(loc, ..) | E::LessEqual(loc, ..) = e {
            out.push(site(loc.start(), true, ">=/<=", it.class));
        }
    }
    out
}

fn shift_operand(e: &E) -> Pow2 {
    match e {
        E::NumberLiteral(_, int, exp) => literal_pow2(int, exp),
        E::HexNumberLiteral(..) | E::RationalNumberLiteral(..) | E::Unit(..) => Pow2::Undecided,
        E::Parenthesis(_, inner) | E::UnaryMinus(_, inner) | E::UnaryPlus(_, inner) => match inner.as_ref() {
            E::NumberLiteral(..) | E::HexNumberLiteral(..) | E::RationalNumberLiteral(..) | E::Unit(..) | E::Parenthesis(..) | E::UnaryMinus(..) => Pow2::Undecided,
            _ => Pow2::No,
        },
        _ => Pow2::No,
    }
}

pub fn shift_math(f: &File) -> Vec<Site> {
    let mut out = Vec::new();
    for (e, it) in f.exprs() {
        if let E::Multiply(loc, l, r) | E::Divide(loc, l, r) = e {
            let (a, b) = (shift_operand(l), shift_operand(r));
            if a == Pow2::Yes || b == Pow2::Yes {
                out.push(site(loc.start(), true, "*or/ by 2^k", it.class));
            } else if a == Pow2::Undecided || b == Pow2::Undecided {
                out.push(site(loc.start(), false, "*or/ by undecided literal", it.class));
            }
        }
    }
    out
}

pub fn solidity_keccak256(f: &File) -> Vec<Site> {
    let mut out = Vec::new();
    for (e, it) in f.exprs() {
        if let E::FunctionCall(loc, callee, _) = e {
            if var_name(callee) == Some("keccak256") {
                out.push(Site { anchors: vec![loc.start(), callee.loc().start()], canonical: true, form: "keccak256(..)", class: it.class });
            }
        }
    }
    out
}

pub fn solidity_math(f: &File) -> Vec<Site> {
    let mut out = Vec::new();
    for (e, it) in f.exprs() {
        if let E::Add(loc, ..) | E::Subtract(loc, ..) | E::Multiply(loc, ..) | E::Divide(loc, ..) = e {
            out.push(site(loc.start(), true, "+-*/", it.class));
        }
    }
    out
}

// ---------------------------------------------------------------------------- declarations

pub struct StateVar<'a> {
    pub def: &'a pt::VariableDefinition,
    pub contract: &'a pt::ContractDefinition,
}

pub fn contracts<'a>(su: &'a pt::SourceUnit) -> Vec<&'a pt::ContractDefinition> {
    su.0.iter()
        .filter_map(|p| if let pt::SourceUnitPart::ContractDefinition(c) = p { Some(c.as_ref()) } else { None })
        .collect()
}

pub fn state_vars<'a>(su: &'a pt::SourceUnit) -> Vec<StateVar<'a>> {
    let mut v = Vec::new();
    for c in contracts(su) {
        for p in &c.parts {
            if let pt::ContractPart::VariableDefinition(d) = p {
                v.push(StateVar { def: d, contract: c });
            }
        }
    }
    v
}

pub fn functions<'a>(c: &'a pt::ContractDefinition) -> Vec<&'a pt::FunctionDefinition> {
    c.parts.iter().filter_map(|p| if let pt::ContractPart::FunctionDefinition(f) = p { Some(f.as_ref()) } else { None }).collect()
}

#[derive(PartialEq, Eq, Clone, Copy, Debug)]
pub enum TyClass {
    /// bool, address, address payable, (u)intN, bytesN
    Value,
    /// string, bytes
    ElementaryRef,
    Mapping,
    /// function types, `payable`, rational: a `Type` expression the statements do not talk about
    OtherType,
    /// arrays, user-defined names, anything that is not a `Type` expression
    NotAType,
}

pub fn ty_class(e: &E) -> TyClass {
    match e {
        E::Type(_, t) => match t {
            pt::Type::Address | pt::Type::AddressPayable | pt::Type::Bool | pt::Type::Int(_) | pt::Type::Uint(_) | pt::Type::Bytes(_) => TyClass::Value,
            pt::Type::String | pt::Type::DynamicBytes => TyClass::ElementaryRef,
            pt::Type::Mapping(..) => TyClass::Mapping,
            pt::Type::Function { .. } | pt::Type::Payable | pt::Type::Rational => TyClass::OtherType,
        },
        _ => TyClass::NotAType,
    }
}

fn var_attrs(d: &pt::VariableDefinition) -> (bool, bool, Vec<&pt::Visibility>) {
    let mut constant = false;
    let mut immutable = false;
    let mut vis = Vec::new();
    for a in &d.attrs {
        match a {
            pt::VariableAttribute::Constant(_) => constant = true,
            pt::VariableAttribute::Immutable(_) => immutable = true,
            pt::VariableAttribute::Visibility(v) => vis.push(v),
            pt::VariableAttribute::Override(..) => {}
        }
    }
    (constant, immutable, vis)
}

fn fn_vis(f: &pt::FunctionDefinition) -> (bool, bool, bool) {
    // (explicit public/external, explicit private/internal, payable)
    let mut pe = false;
    let mut pi = false;
    let mut payable = false;
    for a in &f.attributes {
        match a {
            pt::FunctionAttribute::Visibility(pt::Visibility::Public(_)) | pt::FunctionAttribute::Visibility(pt::Visibility::External(_)) => pe = true,
            pt::FunctionAttribute::Visibility(pt::Visibility::Private(_)) | pt::FunctionAttribute::Visibility(pt::Visibility::Internal(_)) => pi = true,
            pt::FunctionAttribute::Mutability(pt::Mutability::Payable(_)) => payable = true,
            _ => {}
        }
    }
    (pe, pi, payable)
}

/// Preconditions of C06/C08: state-variable names unique in the file and not
/// shadowed by any local, parameter or return variable.
pub fn names_ok(f: &File) -> bool {
    let svs = state_vars(f.su);
    let mut seen = BTreeSet::new();
    for sv in &svs {
        if !seen.insert(sv.def.name.name.clone()) {
            return false;
        }
    }
    let mut locals: BTreeSet<String> = BTreeSet::new();
    fn params(list: &pt::ParameterList, out: &mut BTreeSet<String>) {
        for (_, p) in list {
            if let Some(p) = p {
                if let Some(n) = &p.name {
                    out.insert(n.name.clone());
                }
            }
        }
    }
    for it in &f.items {
        match it.node {
            NodeRef::Stmt(pt::Statement::VariableDefinition(_, d, _)) => {
                locals.insert(d.name.name.clone());
            }
            NodeRef::Stmt(pt::Statement::Try(_, _, ret, clauses)) => {
                if let Some((pl, _)) = ret {
                    params(pl, &mut locals);
                }
                for c in clauses {
                    match c {
                        pt::CatchClause::Simple(_, Some(p), _) => {
                            if let Some(n) = &p.name {
                                locals.insert(n.name.clone());
                            }
                        }
                        pt::CatchClause::Named(_, _, p, _) => {
                            if let Some(n) = &p.name {
                                locals.insert(n.name.clone());
                            }
                        }
                        _ => {}
                    }
                }
            }
            NodeRef::Expr(E::List(_, pl)) => params(pl, &mut locals),
            NodeRef::CPart(pt::ContractPart::FunctionDefinition(fd)) => {
                params(&fd.params, &mut locals);
                params(&fd.returns, &mut locals);
            }
            NodeRef::Part(pt::SourceUnitPart::FunctionDefinition(fd)) => {
                params(&fd.params, &mut locals);
                params(&fd.returns, &mut locals);
            }
            NodeRef::Part(pt::SourceUnitPart::VariableDefinition(d)) => {
                locals.insert(d.name.name.clone());
            }
            _ => {}
        }
    }
    seen.is_disjoint(&locals)
}

pub fn payable_function(f: &File) -> Vec<Site> {
    let mut out = Vec::new();
    for c in contracts(f.su) {
        for fd in functions(c) {
            let (pe, pi, payable) = fn_vis(fd);
            if fd.body.is_some() && !pe && !pi && !payable {
                // no visibility at all (public by default before 0.5): undecided
                out.push(site(fd.loc.start(), false, "no-visibility", "Contract.part"));
            }
            if fd.body.is_some() && pe && !payable {
                // a `fallback` is a public/external function with a body like any other; constructors,
                // `receive` (always payable) and modifiers stay undecided
                let canonical = ((fd.ty == pt::FunctionTy::Function && fd.name.is_some()) || fd.ty == pt::FunctionTy::Fallback) && !pi;
                out.push(site(fd.loc.start(), canonical, if canonical { "public-nonpayable-function" } else { "public-nonpayable-special" }, "Contract.part"));
            }
        }
    }
    for p in &f.su.0 {
        if let pt::SourceUnitPart::FunctionDefinition(fd) = p {
            let (pe, _, payable) = fn_vis(fd);
            if fd.body.is_some() && pe && !payable {
                out.push(site(fd.loc.start(), false, "free-function-with-visibility", "SourceUnit.part"));
            }
        }
    }
    out
}

pub fn private_constant(f: &File) -> Vec<Site> {
    let mut out = Vec::new();
    for sv in state_vars(f.su) {
        let (constant, immutable, vis) = var_attrs(sv.def);
        if !constant {
            continue;
        }
        let private = vis.iter().any(|v| matches!(v, pt::Visibility::Private(_)));
        if private {
            continue;
        }
        match ty_class(&sv.def.ty) {
            TyClass::Value | TyClass::ElementaryRef => out.push(site(sv.def.loc.start(), !immutable, "non-private-constant", "Contract.part")),
            TyClass::OtherType | TyClass::Mapping | TyClass::NotAType => out.push(site(sv.def.loc.start(), false, "non-private-constant-other-type", "Contract.part")),
        }
    }
    // file-level constants: undecided
    for p in &f.su.0 {
        if let pt::SourceUnitPart::VariableDefinition(d) = p {
            let (constant, _, vis) = var_attrs(d);
            if constant && !vis.iter().any(|v| matches!(v, pt::Visibility::Private(_))) {
                out.push(site(d.loc.start(), false, "file-level-constant", "SourceUnit.part"));
            }
        }
    }
    out
}

pub fn private_vars_leading_underscore(f: &File) -> Vec<Site> {
    let mut out = Vec::new();
    for sv in state_vars(f.su) {
        let (constant, _imm, vis) = var_attrs(sv.def);
        let name = &sv.def.name.name;
        let mut bad = false;
        let mut undecided = false;
        for v in &vis {
            match v {
                pt::Visibility::Private(_) | pt::Visibility::Internal(_) => {
                    if !name.starts_with('_') {
                        bad = true;
                    }
                }
                pt::Visibility::Public(_) => {
                    if name.starts_with('_') {
                        bad = true;
                    }
                }
                pt::Visibility::External(_) => {
                    if name.starts_with('_') {
                        undecided = true;
                    }
                }
            }
        }
        if constant {
            // constants: undecided (table 8.2)
            if bad || undecided {
                out.push(site(sv.def.loc.start(), false, "constant-with-contradicting-underscore", "Contract.part"));
            }
            continue;
        }
        match ty_class(&sv.def.ty) {
            TyClass::Value | TyClass::ElementaryRef => {
                if bad {
                    out.push(site(sv.def.loc.start(), vis.len() == 1, "underscore-contradicts-visibility", "Contract.part"));
                } else if undecided {
                    out.push(site(sv.def.loc.start(), false, "external-variable", "Contract.part"));
                }
            }
            TyClass::OtherType | TyClass::Mapping | TyClass::NotAType => {
                if bad || undecided {
                    out.push(site(sv.def.loc.start(), false, "other-type", "Contract.part"));
                }
            }
        }
    }
    out
}

pub fn private_func_leading_underscore(f: &File) -> Vec<Site> {
    let mut out = Vec::new();
    for c in contracts(f.su) {
        for fd in functions(c) {
            if fd.ty != pt::FunctionTy::Function {
                continue;
            }
            let name = match &fd.name {
                Some(n) => n,
                None => continue,
            };
            let (pe, pi, _) = fn_vis(fd);
            let us = name.name.starts_with('_');
            let bad = (pe && us) || (pi && !us);
            if bad {
                // one explicit visibility: decided; contradictory double visibility: undecided
                out.push(Site { anchors: vec![name.loc.start(), fd.loc.start()], canonical: !(pe && pi), form: "underscore-contradicts-visibility", class: "Contract.part" });
            }
        }
    }
    for p in &f.su.0 {
        if let pt::SourceUnitPart::FunctionDefinition(fd) = p {
            if let (pt::FunctionTy::Function, Some(name)) = (fd.ty, &fd.name) {
                let (pe, pi, _) = fn_vis(fd);
                let us = name.name.starts_with('_');
                if (pe && us) || (pi && !us) {
                    out.push(Site { anchors: vec![name.loc.start(), fd.loc.start()], canonical: false, form: "free-function-with-visibility", class: "SourceUnit.part" });
                }
            }
        }
    }
    out
}

pub fn constructor_order(f: &File) -> Vec<Site> {
    let mut out = Vec::new();
    for c in contracts(f.su) {
        let mut seen_fn = false;
        let mut ctors = 0;
        for fd in functions(c) {
            match fd.ty {
                pt::FunctionTy::Constructor => {
                    ctors += 1;
                    if seen_fn {
                        out.push(site(fd.loc.start(), ctors == 1, "constructor-after-function", "Contract.part"));
                    }
                }
                pt::FunctionTy::Modifier => {}
                pt::FunctionTy::Function | pt::FunctionTy::Fallback | pt::FunctionTy::Receive => seen_fn = true,
            }
        }
    }
    out
}

// ---------------------------------------------------------------------------- C07

pub fn unsafe_erc20_operation(f: &File) -> Vec<Site> {
    let mut out = Vec::new();
    for (e, it) in f.exprs() {
        if let E::MemberAccess(loc, _, id) = e {
            if id.name == "transfer" || id.name == "transferFrom" || id.name == "approve" {
                out.push(site(loc.start(), true, "erc20-member", it.class));
            }
        }
    }
    out
}

pub fn divide_before_multiply(f: &File) -> Vec<Site> {
    let mut out = Vec::new();
    for (e, it) in f.exprs() {
        match e {
            E::Multiply(loc, l, _) => {
                let mut cur: &E = l;
                let mut hit = false;
                let mut depth = 0;
                loop {
                    match cur {
                        E::Divide(..) => {
                            hit = true;
                            break;
                        }
                        E::Multiply(_, next, _) => {
                            cur = next;
                            depth += 1;
                        }
                        E::Parenthesis(_, next) => {
                            cur = next;
                            depth += 1;
                        }
                        _ => break,
                    }
                }
                if hit {
                    out.push(site(loc.start(), true, if depth == 0 { "a/b*c" } else { "division-deeper-on-chain" }, it.class));
                } else if contains_kind(l, K::Divide) {
                    out.push(site(loc.start(), false, "division-off-chain", it.class));
                }
            }
            E::AssignDivide(loc, _, r) => {
                let mut cur: &E = r;
                let mut hit = false;
                loop {
                    match cur {
                        E::Multiply(..) => {
                            hit = true;
                            break;
                        }
                        E::Divide(_, next, _) | E::Add(_, next, _) | E::Subtract(_, next, _) | E::Modulo(_, next, _) | E::BitwiseAnd(_, next, _) | E::BitwiseOr(_, next, _) | E::BitwiseXor(_, next, _) | E::ShiftLeft(_, next, _) | E::ShiftRight(_, next, _) | E::Parenthesis(_, next) => cur = next,
                        _ => break,
                    }
                }
                if hit {
                    out.push(site(loc.start(), true, "x/=a*b", it.class));
                } else if contains_kind(r, K::Multiply) {
                    out.push(site(loc.start(), false, "multiplication-off-chain", it.class));
                }
            }
            _ => {}
        }
    }
    out
}

/// The value of a pragma directive without the comments written inside it (for this lexer the
/// value is the raw text up to the `;`, comments included); each comment counts as a blank.
pub fn pragma_value_without_comments(raw: &str) -> String {
    let b: Vec<char> = raw.chars().collect();
    let mut out = String::new();
    let mut i = 0;
    while i < b.len() {
        if b[i] == '/' && i + 1 < b.len() && b[i + 1] == '*' {
            i += 2;
            while i < b.len() && !(b[i] == '*' && i + 1 < b.len() && b[i + 1] == '/') {
                i += 1;
            }
            i = (i + 2).min(b.len());
            out.push(' ');
        } else if b[i] == '/' && i + 1 < b.len() && b[i + 1] == '/' {
            while i < b.len() && b[i] != '\n' {
                i += 1;
            }
            out.push(' ');
        } else {
            out.push(b[i]);
            i += 1;
        }
    }
    out
}

pub fn floating_pragma(f: &File) -> Vec<Site> {
    let mut out = Vec::new();
    for p in &f.su.0 {
        if let pt::SourceUnitPart::PragmaDirective(loc, id, val) = p {
            let stripped = pragma_value_without_comments(&val.string);
            let v = stripped.trim();
            let is_ver = |s: &str| {
                let parts: Vec<&str> = s.split('.').collect();
                parts.len() == 3 && parts.iter().all(|p| !p.is_empty() && p.chars().all(|c| c.is_ascii_digit()))
            };
            if id.name == "solidity" {
                if let Some(rest) = v.strip_prefix('^') {
                    if is_ver(rest.trim()) {
                        out.push(site(loc.start(), true, "^X.Y.Z", "SourceUnit.part"));
                        continue;
                    }
                }
                // a caret range anywhere in the value ("every caret-ranged pragma"): `^` followed by digits
                let bytes = v.as_bytes();
                let caret_range = (0..bytes.len()).any(|i| bytes[i] == b'^' && v[i + 1..].trim_start().chars().next().map(|c| c.is_ascii_digit()).unwrap_or(false));
                if caret_range {
                    out.push(site(loc.start(), true, "caret-range-in-compound-pragma", "SourceUnit.part"));
                    continue;
                }
                if is_ver(v) || v.strip_prefix('=').map(|r| is_ver(r.trim())).unwrap_or(false) {
                    continue; // pinned: must not be reported
                }
                out.push(site(loc.start(), false, "version-range", "SourceUnit.part"));
            } else if v.contains('^') {
                out.push(site(loc.start(), false, "caret-in-other-pragma", "SourceUnit.part"));
            }
        }
    }
    out
}

fn is_msg_sender(e: &E) -> bool {
    matches!(e, E::MemberAccess(_, obj, id) if id.name == "sender" && var_name(obj) == Some("msg"))
}

fn is_selfdestruct_callee(e: &E) -> bool {
    matches!(var_name(e), Some("selfdestruct") | Some("suicide"))
}

#[derive(Default, Debug)]
struct SenderUse {
    check: bool,
    other: bool,
}

/// Classify every occurrence of `msg.sender` below `e`.
/// `in_sd`: somewhere inside the arguments of a selfdestruct/suicide call.
fn sender_uses_expr(e: &E, in_sd: bool, acc: &mut SenderUse) {
    match e {
        E::FunctionCall(_, callee, args) => {
            if is_selfdestruct_callee(callee) {
                for a in args {
                    if is_msg_sender(a) {
                        // benign (a): the payout address itself
                    } else {
                        sender_uses_expr(a, true, acc);
                    }
                }
                return;
            }
            if matches!(callee.as_ref(), E::Type(..)) && !is_elementary_type_expr(callee) {
                // a "conversion" to a non-elementary type keyword (`mapping(..)(msg.sender)`): neither a check
                // passed to a call nor one of the conversions the statement names — undecided
                for a in args {
                    if is_msg_sender(a) || matches!(a, E::Equal(_, l, _) | E::NotEqual(_, l, _) if is_msg_sender(l)) {
                        acc.other = true;
                    } else {
                        sender_uses_expr(a, in_sd, acc);
                    }
                }
                return;
            }
            if is_elementary_type_expr(callee) {
                // conversion
                if args.len() == 1 && is_msg_sender(&args[0]) {
                    // benign (a)/(b) — unless this conversion is itself a direct argument of
                    // an ordinary call, which the ordinary-call branch below intercepts
                    return;
                }
                for a in args {
                    sender_uses_expr(a, in_sd, acc);
                }
                return;
            }
            // ordinary call
            sender_uses_expr(callee, in_sd, acc);
            for a in args {
                if is_msg_sender(a) {
                    if in_sd {
                        acc.other = true;
                    } else {
                        acc.check = true;
                    }
                    continue;
                }
                if let E::Equal(_, l, r) | E::NotEqual(_, l, r) = a {
                    if is_msg_sender(l) {
                        if in_sd {
                            acc.other = true;
                        } else {
                            acc.check = true;
                        }
                        sender_uses_expr(r, in_sd, acc);
                        continue;
                    }
                }
                // a conversion of msg.sender passed directly to an ordinary call: undecided
                if let E::FunctionCall(_, c2, a2) = a {
                    if is_elementary_type_expr(c2) && a2.len() == 1 && is_msg_sender(&a2[0]) {
                        acc.other = true;
                        continue;
                    }
                }
                sender_uses_expr(a, in_sd, acc);
            }
        }
        _ => {
            if is_msg_sender(e) {
                // inside the selfdestruct call's own arguments any mention is the payout address (benign);
                // anywhere else another kind of mention leaves the verdict undecided
                if !in_sd {
                    acc.other = true;
                }
                return;
            }
            // generic descent through the reference walker's direct children
            for ch in direct_children(e) {
                match ch {
                    Child::E(x) => sender_uses_expr(x, in_sd, acc),
                    Child::S(s) => sender_uses_stmt(s, in_sd, acc),
                }
            }
        }
    }
}

enum Child<'a> {
    E(&'a E),
    S(&'a pt::Statement),
}

/// Direct children of an expression, via the reference walk (depth + 1 items).
fn direct_children(e: &E) -> Vec<Child<'_>> {
    let items = walk::walk_from(NodeRef::Expr(e));
    items
        .iter()
        .filter(|i| i.ctx.depth == 1)
        .filter_map(|i| match i.node {
            NodeRef::Expr(x) => Some(Child::E(x)),
            NodeRef::Stmt(s) => Some(Child::S(s)),
            _ => None,
        })
        .collect()
}

fn sender_uses_stmt(s: &pt::Statement, in_sd: bool, acc: &mut SenderUse) {
    let items = walk::walk_from(NodeRef::Stmt(s));
    for i in items.iter().filter(|i| i.ctx.depth == 1) {
        match i.node {
            NodeRef::Expr(x) => sender_uses_expr(x, in_sd, acc),
            NodeRef::Stmt(st) => sender_uses_stmt(st, in_sd, acc),
            _ => {}
        }
    }
}

pub fn unprotected_selfdestruct(f: &File) -> Vec<Site> {
    let mut out = Vec::new();
    for c in contracts(f.su) {
        for fd in functions(c) {
            let body = match &fd.body {
                Some(b) => b,
                None => continue,
            };
            if fd.ty == pt::FunctionTy::Constructor {
                continue;
            }
            let (pe, pi, _) = fn_vis(fd);
            if !pe && pi {
                continue; // internal / private: never
            }
            // a `modifier` is not a function; two contradictory visibilities decide nothing; neither does a
            // function without any visibility (public by default before 0.5, the era of `function ()`)
            let odd_head = fd.ty == pt::FunctionTy::Modifier || pi || !pe;
            let only = fd.attributes.iter().any(|a| matches!(a, pt::FunctionAttribute::BaseOrModifier(_, b) if b.name.identifiers.iter().any(|i| i.name.contains("only"))));
            if only {
                continue;
            }
            let mut acc = SenderUse::default();
            sender_uses_stmt(body, false, &mut acc);
            if acc.check {
                continue;
            }
            for it in walk::walk_from(NodeRef::Stmt(body)) {
                if let NodeRef::Expr(E::FunctionCall(loc, callee, _)) = it.node {
                    if is_selfdestruct_callee(callee) {
                        let canonical = !acc.other && !odd_head;
                        out.push(site(loc.start(), canonical, if canonical { "unprotected" } else { "other-mention-of-msg.sender-or-odd-head" }, it.class));
                    }
                }
            }
        }
    }
    out
}

// ---------------------------------------------------------------------------- C08

#[derive(Default)]
pub struct Writes {
    /// names that are the bare target of a plain `=`
    pub plain: BTreeSet<String>,
    /// names that are the bare target of =, compound assignment, ++ or --
    pub direct: BTreeSet<String>,
    /// names mentioned as a write target in the broad sense
    pub broad: BTreeSet<String>,
    /// bare name or name[index] target of a plain `=`
    pub plain_or_indexed: BTreeSet<String>,
    /// bare names that are a component of a tuple / parenthesised target of a plain `=`
    pub via_tuple: BTreeSet<String>,
}

fn lvalue_roots(e: &E, out: &mut BTreeSet<String>) {
    match e {
        E::Variable(id) => {
            out.insert(id.name.clone());
        }
        E::ArraySubscript(_, b, _) | E::ArraySlice(_, b, _, _) | E::MemberAccess(_, b, _) | E::Parenthesis(_, b) => lvalue_roots(b, out),
        E::List(_, pl) => {
            for (_, p) in pl {
                if let Some(p) = p {
                    lvalue_roots(&p.ty, out);
                }
            }
        }
        _ => {}
    }
}

pub fn writes_in<'a>(items: impl Iterator<Item = &'a Item<'a>>) -> Writes {
    let mut w = Writes::default();
    for it in items {
        let e = match it.node.expr() {
            Some(e) => e,
            None => continue,
        };
        let (lhs, plain) = match e {
            E::Assign(_, l, _) => (l.as_ref(), true),
            E::AssignOr(_, l, _) | E::AssignAnd(_, l, _) | E::AssignXor(_, l, _) | E::AssignShiftLeft(_, l, _) | E::AssignShiftRight(_, l, _) | E::AssignAdd(_, l, _) | E::AssignSubtract(_, l, _) | E::AssignMultiply(_, l, _) | E::AssignDivide(_, l, _) | E::AssignModulo(_, l, _) => (l.as_ref(), false),
            E::PreIncrement(_, x) | E::PreDecrement(_, x) | E::PostIncrement(_, x) | E::PostDecrement(_, x) => (x.as_ref(), false),
            E::Delete(_, x) => {
                lvalue_roots(x, &mut w.broad);
                continue;
            }
            _ => continue,
        };
        lvalue_roots(lhs, &mut w.broad);
        // the bare identifier, also as a component of a tuple `(a, b) = ..` or in parentheses `(a) = ..`
        let mut targets: Vec<&E> = Vec::new();
        fn leaf_targets<'x>(e: &'x E, out: &mut Vec<&'x E>) {
            match e {
                E::Parenthesis(_, inner) => leaf_targets(inner, out),
                E::List(_, pl) => {
                    for (_, p) in pl {
                        if let Some(p) = p {
                            // a component with a name is a declaration `(uint a, uint b) = ..`, not a write
                            if p.name.is_none() {
                                leaf_targets(&p.ty, out);
                            }
                        }
                    }
                }
                other => out.push(other),
            }
        }
        if plain {
            leaf_targets(lhs, &mut targets);
        } else {
            // compound assignment and ++/--: only the bare operand (a tuple is not a valid operand)
            targets.push(lhs);
        }
        let flattened = plain && matches!(lhs, E::List(..) | E::Parenthesis(..));
        for leaf in targets {
            if let E::Variable(id) = leaf {
                let n = id.name.as_str();
                if flattened {
                    w.via_tuple.insert(n.to_string());
                }
                w.direct.insert(n.to_string());
                if plain {
                    w.plain.insert(n.to_string());
                    w.plain_or_indexed.insert(n.to_string());
                }
            }
            if plain {
                if let E::ArraySubscript(_, b, _) = leaf {
                    if let E::Variable(id) = b.as_ref() {
                        w.plain_or_indexed.insert(id.name.clone());
                    }
                }
            }
        }
    }
    w
}

fn assembly_mentions(f: &File, name: &str) -> bool {
    f.items.iter().any(|it| matches!(it.node, NodeRef::Stmt(pt::Statement::Assembly { loc, .. }) if f.text.get(loc.start()..loc.end()).map(|s| s.contains(name)).unwrap_or(true)))
}

pub fn constant_variables(f: &File) -> Vec<Site> {
    let w = writes_in(f.items.iter());
    let mut out = Vec::new();
    for sv in state_vars(f.su) {
        let (constant, _, _) = var_attrs(sv.def);
        if constant {
            continue;
        }
        let name = &sv.def.name.name;
        if w.direct.contains(name) {
            continue; // must never be suggested
        }
        let decided_type = matches!(ty_class(&sv.def.ty), TyClass::Value | TyClass::ElementaryRef);
        let canonical = decided_type && !w.broad.contains(name) && !assembly_mentions(f, name);
        out.push(site(sv.def.loc.start(), canonical, if canonical { "never-written" } else { "written-only-indirectly" }, "Contract.part"));
    }
    out
}

fn is_excluded_rhs(r: &E) -> bool {
    match r {
        E::StringLiteral(_) => true,
        E::FunctionCall(_, callee, _) => match callee.as_ref() {
            E::MemberAccess(_, obj, _) => var_name(obj) == Some("abi"),
            E::Type(_, pt::Type::DynamicBytes) => true,
            _ => false,
        },
        _ => false,
    }
}

pub fn immutable_variables(f: &File) -> Vec<Site> {
    let mut out = Vec::new();
    // writes inside constructors / outside constructors
    let in_ctor = |it: &Item| it.ctx.func.map(|fd| fd.ty == pt::FunctionTy::Constructor && it.ctx.contract.is_some()).unwrap_or(false);
    let w_outside = writes_in(f.items.iter().filter(|it| !in_ctor(it)));
    // direct writes inside non-constructor functions / modifiers of a contract
    let w_fn = writes_in(f.items.iter().filter(|it| it.ctx.contract.is_some() && it.ctx.func.map(|fd| fd.ty != pt::FunctionTy::Constructor).unwrap_or(false)));
    for sv in state_vars(f.su) {
        let (constant, immutable, _) = var_attrs(sv.def);
        if constant || immutable {
            continue;
        }
        let name = &sv.def.name.name;
        // plain assignments to the bare name inside constructors
        let mut any_ctor_assign = false;
        let mut good_own_ctor_assign = false;
        for it in f.items.iter().filter(|it| in_ctor(it)) {
            if let Some(E::Assign(_, l, r)) = it.node.expr() {
                if var_name(l) == Some(name.as_str()) {
                    any_ctor_assign = true;
                    let own = it.ctx.contract.map(|c| std::ptr::eq(c, sv.contract)).unwrap_or(false);
                    if own && !is_excluded_rhs(r) {
                        good_own_ctor_assign = true;
                    }
                }
            }
        }
        if w_fn.direct.contains(name) {
            continue; // never
        }
        if !any_ctor_assign {
            // written in a constructor only as a tuple component, in parentheses or by a compound
            // assignment / ++ / --: "assigned in a constructor" in a wider sense, undecided
            let w_ctor = writes_in(f.items.iter().filter(|it| in_ctor(it)));
            if w_ctor.direct.contains(name) || w_ctor.via_tuple.contains(name) {
                out.push(site(sv.def.loc.start(), false, "constructor-written-by-tuple-or-compound", "Contract.part"));
            }
            continue; // otherwise never
        }
        let canonical = ty_class(&sv.def.ty) == TyClass::Value && good_own_ctor_assign && !w_outside.broad.contains(name) && !assembly_mentions(f, name);
        out.push(site(sv.def.loc.start(), canonical, if canonical { "assigned-only-in-constructor" } else { "constructor-assigned-undecided" }, "Contract.part"));
    }
    out
}

pub fn memory_to_calldata(f: &File) -> Vec<Site> {
    let mut out = Vec::new();
    let mut handle = |fd: &pt::FunctionDefinition, in_contract: bool, out: &mut Vec<Site>| {
        if fd.ty == pt::FunctionTy::Constructor {
            return; // never
        }
        // return parameters: undecided
        for (_, p) in &fd.returns {
            if let Some(p) = p {
                if let (Some(_), Some(pt::StorageLocation::Memory(l))) = (&p.name, &p.storage) {
                    out.push(Site { anchors: vec![l.start(), p.loc.start()], canonical: false, form: "memory-return-parameter", class: "Function.return" });
                }
            }
        }
        let body = match &fd.body {
            Some(b) => b,
            None => {
                // body-less declaration: undecided
                for (_, p) in &fd.params {
                    if let Some(p) = p {
                        if let (Some(_), Some(pt::StorageLocation::Memory(l))) = (&p.name, &p.storage) {
                            out.push(Site { anchors: vec![l.start(), p.loc.start()], canonical: false, form: "memory-param-of-bodyless-function", class: "Function.param" });
                        }
                    }
                }
                return;
            }
        };
        let body_items = walk::walk_from(NodeRef::Stmt(body));
        let w = writes_in(body_items.iter());
        let (pe, pi, _) = fn_vis(fd);
        let pe = pe && !pi;
        let mut names: BTreeMap<&str, usize> = BTreeMap::new();
        for (_, p) in &fd.params {
            if let Some(p) = p {
                if let Some(n) = &p.name {
                    *names.entry(n.name.as_str()).or_insert(0) += 1;
                }
            }
        }
        for (_, p) in &fd.params {
            let p = match p {
                Some(p) => p,
                None => continue,
            };
            let (name, mem) = match (&p.name, &p.storage) {
                (Some(n), Some(pt::StorageLocation::Memory(l))) => (n.name.as_str(), l),
                _ => continue,
            };
            if w.plain_or_indexed.contains(name) {
                continue; // never
            }
            let canonical = in_contract && pe && fd.ty == pt::FunctionTy::Function && !w.broad.contains(name) && names[name] == 1;
            out.push(Site { anchors: vec![mem.start(), p.loc.start()], canonical, form: if canonical { "unwritten-memory-param" } else { "memory-param-undecided" }, class: "Function.param" });
        }
    };
    for p in &f.su.0 {
        match p {
            pt::SourceUnitPart::ContractDefinition(c) => {
                for fd in functions(c) {
                    handle(fd, true, &mut out);
                }
            }
            pt::SourceUnitPart::FunctionDefinition(fd) => handle(fd, false, &mut out),
            _ => {}
        }
    }
    out
}

pub fn sstore(f: &File) -> Vec<Site> {
    let mut decided: BTreeSet<&str> = BTreeSet::new();
    let mut undecided: BTreeSet<&str> = BTreeSet::new();
    for sv in state_vars(f.su) {
        let (constant, immutable, _) = var_attrs(sv.def);
        if constant || immutable {
            continue;
        }
        match ty_class(&sv.def.ty) {
            TyClass::Value | TyClass::ElementaryRef => {
                decided.insert(sv.def.name.name.as_str());
            }
            TyClass::OtherType => {
                undecided.insert(sv.def.name.name.as_str());
            }
            _ => {}
        }
    }
    let mut out = Vec::new();
    for (e, it) in f.exprs() {
        if let E::Assign(loc, l, _) = e {
            if let Some(n) = var_name(l) {
                if decided.contains(n) {
                    out.push(site(loc.start(), true, "plain-assignment-to-state-variable", it.class));
                } else if undecided.contains(n) {
                    out.push(site(loc.start(), false, "assignment-to-function-typed-variable", it.class));
                }
            }
        }
    }
    out
}

// ---------------------------------------------------------------------------- C09

/// The version named by the file's single `pragma solidity [op]X.Y.Z`, if the file is in C09's domain.
pub fn single_solidity_version(su: &pt::SourceUnit) -> Option<(u64, u64, u64)> {
    let mut found = None;
    for p in &su.0 {
        if let pt::SourceUnitPart::PragmaDirective(_, id, val) = p {
            if id.name == "solidity" {
                if found.is_some() {
                    return None;
                }
                let stripped = pragma_value_without_comments(&val.string);
                let v = stripped.trim();
                if v.starts_with('<') {
                    return None; // an upper bound names the version the file cannot use: not among the decided spellings
                }
                let v = v.trim_start_matches(|c: char| "^~=>".contains(c)).trim();
                let parts: Vec<&str> = v.split('.').collect();
                if parts.len() != 3 {
                    return None;
                }
                let nums: Option<Vec<u64>> = parts.iter().map(|p| if !p.is_empty() && p.len() < 9 && p.chars().all(|c| c.is_ascii_digit()) { p.parse().ok() } else { None }).collect();
                let nums = nums?;
                found = Some((nums[0], nums[1], nums[2]));
            }
        }
    }
    found
}

fn uses_safemath(f: &File) -> bool {
    let chk = |u: &pt::Using| matches!(&u.list, pt::UsingList::Library(path) if path.identifiers.iter().any(|i| i.name == "SafeMath"));
    f.items.iter().any(|it| match it.node {
        NodeRef::Part(pt::SourceUnitPart::Using(u)) => chk(u),
        NodeRef::CPart(pt::ContractPart::Using(u)) => chk(u),
        _ => false,
    })
}

pub fn safe_math_sites(f: &File) -> Vec<Site> {
    let mut out = Vec::new();
    if !uses_safemath(f) {
        return out;
    }
    for (e, it) in f.exprs() {
        if let E::FunctionCall(loc, callee, _) = e {
            if let E::MemberAccess(mloc, _, id) = callee.as_ref() {
                if ["add", "sub", "mul", "div"].contains(&id.name.as_str()) {
                    out.push(Site { anchors: vec![mloc.start(), loc.start()], canonical: true, form: "safemath-call", class: it.class });
                }
            }
        }
    }
    out
}

/// (sites of string_errors, sites of short_revert_string) when the detector is active
pub fn require_string_sites(f: &File) -> (Vec<Site>, Vec<Site>) {
    let mut all = Vec::new();
    let mut long = Vec::new();
    for (e, it) in f.exprs() {
        if let E::FunctionCall(loc, callee, args) = e {
            if var_name(callee) != Some("require") {
                continue;
            }
            if let Some(E::StringLiteral(parts)) = args.last() {
                let anchors = vec![parts[0].loc.start(), loc.start()];
                all.push(Site { anchors: anchors.clone(), canonical: true, form: "require-with-string", class: it.class });
                let first = &parts[0].string;
                // bytes of the (first) literal as written in the source; non-ASCII text counts in bytes
                let tricky = parts.len() > 1 || first.contains('\\');
                let total: usize = parts.iter().map(|p| p.string.len()).sum();
                if tricky {
                    if first.len() >= 32 || total >= 32 {
                        long.push(Site { anchors, canonical: false, form: "multi-part-or-escaped-string", class: it.class });
                    }
                } else if first.len() >= 32 {
                    long.push(Site { anchors, canonical: true, form: "string>=32", class: it.class });
                }
            }
        }
    }
    (all, long)
}

pub fn version_gated(f: &File, which: &str) -> Vec<Site> {
    let v = single_solidity_version(f.su);
    let undecide = |mut s: Vec<Site>| {
        for x in s.iter_mut() {
            x.canonical = false;
        }
        s
    };
    match which {
        "safe_math_pre_080" => match v {
            Some(v) => {
                if v < (0, 8, 0) {
                    safe_math_sites(f)
                } else {
                    vec![]
                }
            }
            None => undecide(safe_math_sites(f)),
        },
        "safe_math_post_080" => match v {
            Some(v) => {
                if v >= (0, 8, 0) {
                    safe_math_sites(f)
                } else {
                    vec![]
                }
            }
            None => undecide(safe_math_sites(f)),
        },
        "string_errors" => match v {
            Some(v) => {
                if v >= (0, 8, 4) {
                    require_string_sites(f).0
                } else {
                    vec![]
                }
            }
            None => undecide(require_string_sites(f).0),
        },
        "short_revert_string" => match v {
            Some(v) => {
                if v < (0, 8, 4) {
                    require_string_sites(f).1
                } else {
                    vec![]
                }
            }
            None => undecide(require_string_sites(f).1),
        },
        _ => vec![],
    }
}

// ---------------------------------------------------------------------------- dispatch

/// Reference sites of a detector by its documented name; `None` for detectors
/// that have no reference model here (the two packing detectors: see C10).
pub fn sites(name: &str, f: &File) -> Option<Vec<Site>> {
    Some(match name {
        "address_balance" => address_balance(f),
        "address_zero" => address_zero(f),
        "bool_equals_bool" => bool_equals_bool(f),
        "assign_update_array_value" => assign_update_array_value(f),
        "cache_array_length" => cache_array_length(f),
        "increment_decrement" => increment_decrement(f),
        "multiple_require" => multiple_require(f),
        "optimal_comparison" => optimal_comparison(f),
        "shift_math" => shift_math(f),
        "solidity_keccak256" => solidity_keccak256(f),
        "solidity_math" => solidity_math(f),
        "payable_function" => payable_function(f),
        "private_constant" => private_constant(f),
        "private_vars_leading_underscore" => private_vars_leading_underscore(f),
        "private_func_leading_underscore" => private_func_leading_underscore(f),
        "constructor_order" => constructor_order(f),
        "unsafe_erc20_operation" => unsafe_erc20_operation(f),
        "divide_before_multiply" => divide_before_multiply(f),
        "floating_pragma" => floating_pragma(f),
        "unprotected_selfdestruct" => unprotected_selfdestruct(f),
        "constant_variables" => constant_variables(f),
        "immutable_variables" => immutable_variables(f),
        "memory_to_calldata" => memory_to_calldata(f),
        "sstore" => sstore(f),
        "safe_math_pre_080" | "safe_math_post_080" | "string_errors" | "short_revert_string" => version_gated(f, name),
        _ => return None,
    })
}

pub const C05: &[&str] = &[
    "address_balance", "address_zero", "bool_equals_bool", "assign_update_array_value", "cache_array_length", "increment_decrement", "multiple_require",
    "optimal_comparison", "shift_math", "solidity_keccak256", "solidity_math",
];
pub const C06: &[&str] = &["payable_function", "private_constant", "private_vars_leading_underscore", "private_func_leading_underscore", "constructor_order"];
pub const C07: &[&str] = &["unsafe_erc20_operation", "divide_before_multiply", "floating_pragma", "unprotected_selfdestruct"];
pub const C08: &[&str] = &["constant_variables", "immutable_variables", "memory_to_calldata", "sstore"];
pub const C09: &[&str] = &["safe_math_pre_080", "safe_math_post_080", "string_errors", "short_revert_string"];
