pub mod walk;
pub mod report;
