pub mod walk;
