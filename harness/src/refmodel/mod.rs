pub mod walk;
pub mod report;
pub mod detect;
