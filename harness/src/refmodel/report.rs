//! Independent line-based reader of the markdown report (DESIGN section 4).

use std::collections::BTreeMap;

/// (pattern name, fingerprint, exact?) — a line of the pattern's explanatory
/// section that identifies it.  `exact` = whole trimmed line, else prefix.
pub const FINGERPRINTS: &[(&str, &str, bool)] = &[
    ("address_balance", "## Use assembly when getting a contract's balance of ETH.", true),
    ("address_zero", "## Use assembly to check for address(0)", true),
    ("assign_update_array_value", "## `array[index] += amount` is cheaper than `array[index] = array[index] + amount` (or related variants)", true),
    ("bool_equals_bool", "## Instead of `if (x == bool)`, use `if(x)` or when applicable, use assembly with `iszero(iszero(x))`.", true),
    ("cache_array_length", "## Cache array length during for loop definition.", true),
    ("constant_variables", "## Mark storage variables as `constant` if they never change.", true),
    ("immutable_variables", "## Mark storage variables as `immutable` if they never change after contract initialization.", true),
    ("increment_decrement", "## `unchecked{++i}` instead of `i++` (or use assembly when applicable)", true),
    ("memory_to_calldata", "## Use `calldata` instead of `memory` for function arguments that do not get mutated.", true),
    ("multiple_require", "## Use multiple require() statments insted of require(expression && expression && ...)", true),
    ("optimal_comparison", "## Optimal Comparison", true),
    ("pack_storage_variables", "## Tightly pack storage variables", true),
    ("pack_struct_variables", "## Pack structs", true),
    ("payable_function", "## Mark functions as payable (with discretion)", true),
    ("private_constant", "## Consider marking constants as private", true),
    ("safe_math_post_080", "## Don't use SafeMath when using solidity >= 0.8.0", true),
    ("safe_math_pre_080", "## Consider using assembly with overflow/undeflow protection for math (add, sub, mul, div) instead of SafeMath", true),
    ("shift_math", "## Right shift or Left shift instead of dividing or multiplying by powers of two", true),
    ("short_revert_string", "## Short Revert Strings", true),
    ("solidity_keccak256", "## Use assembly to hash instead of Solidity", true),
    ("solidity_math", "## Use assembly for math (add, sub, mul, div)", true),
    ("sstore", "## Use assembly to write storage values", true),
    ("string_errors", "## Use custom errors instead of string error messages", true),
    ("divide_before_multiply", "Consider ordering multiplication before division to avoid loss of precision", false),
    ("floating_pragma", "Floating pragma is a vulnerability in smart contract code", false),
    ("unprotected_selfdestruct", "Unprotected call to a function executing `selfdestruct` or `suicide`.", false),
    ("unsafe_erc20_operation", "ERC20 operations can be unsafe due to different implementations", false),
    ("constructor_order", "### Constructor is placed after other functions", true),
    ("private_func_leading_underscore", "## No use of underscore for internal and private function names | Don't use the underscore prefix for public and external function names", true),
    ("private_vars_leading_underscore", "## No use of underscore for internal and private variable names | Don't use the underscore prefix for public variable names", true),
];

/// Section source file of a pattern under /repo/src/report/report_sections/ (hand-written; two
/// file stems differ from the documented pattern name).
fn section_file(name: &str) -> Option<String> {
    let p = crate::patterns::by_name(name)?;
    let stem = match name {
        "constant_variables" => "constant_variable",
        "immutable_variables" => "immutable_variable",
        n => n,
    };
    Some(format!("src/report/report_sections/{}/{}.rs", p.category(), stem))
}

/// Fingerprints used by the parser.  The identifying line of each pattern's explanatory section
/// is read from the section's own source file at check time (so that re-wording a section is not
/// mistaken for a violation); it must be unique over all section texts, otherwise — or if the file
/// cannot be read — the built-in table above is used for that pattern.
pub fn fingerprints() -> &'static Vec<(String, String, bool)> {
    use std::sync::OnceLock;
    static T: OnceLock<Vec<(String, String, bool)>> = OnceLock::new();
    T.get_or_init(|| {
        let repo = std::env::var("VCHECK_REPO").unwrap_or_else(|_| "/repo".into());
        let mut texts: Vec<(String, Option<String>)> = Vec::new();
        for (name, _, _) in FINGERPRINTS {
            let txt = section_file(name).and_then(|f| std::fs::read_to_string(format!("{repo}/{f}")).ok()).and_then(|src| {
                let a = src.find("r##\"")? + 4;
                let b = src[a..].find("\"##")? + a;
                Some(src[a..b].to_string())
            });
            texts.push((name.to_string(), txt));
        }
        let all_lines: Vec<String> = texts.iter().filter_map(|(_, t)| t.as_ref()).flat_map(|t| t.lines().map(|l| l.trim().to_string()).collect::<Vec<_>>()).collect();
        let mut out = Vec::new();
        for (i, (name, txt)) in texts.iter().enumerate() {
            let mut chosen: Option<String> = None;
            if let Some(t) = txt {
                for l in t.lines().map(|l| l.trim()).filter(|l| l.len() >= 12 && !l.starts_with("- ") && *l != "### Lines") {
                    if all_lines.iter().filter(|x| x.as_str() == l).count() == 1 {
                        chosen = Some(l.to_string());
                        break;
                    }
                }
            }
            match chosen {
                Some(l) => out.push((name.clone(), l, true)),
                None => out.push((name.clone(), FINGERPRINTS[i].1.to_string(), FINGERPRINTS[i].2)),
            }
        }
        out
    })
}

pub fn severity_of(pattern: &str) -> Option<&'static str> {
    match pattern {
        "unprotected_selfdestruct" => Some("High"),
        "divide_before_multiply" => Some("Medium"),
        "unsafe_erc20_operation" | "floating_pragma" => Some("Low"),
        _ => None,
    }
}

#[derive(Debug, Clone, PartialEq, Eq)]
pub struct Entry {
    pub pattern: String,
    pub file: String,
    pub line: i64,
    /// severity heading in force where the pattern's section appeared (vulnerability part only)
    pub severity: Option<String>,
    /// which overview part the entry is in: "vulnerabilities", "optimizations" or "none"
    pub part: String,
}

#[derive(Debug, Default, Clone)]
pub struct Parsed {
    pub entries: Vec<Entry>,
    /// pattern sections seen, in order, with multiplicity
    pub sections: Vec<String>,
    pub total_vulnerabilities: Option<i64>,
    pub total_optimizations: Option<i64>,
    pub severity_headings: Vec<String>,
    /// structural problems (list without a section, malformed entry ...)
    pub problems: Vec<String>,
}

impl Parsed {
    /// multiset of (pattern, file, line)
    pub fn multiset(&self) -> BTreeMap<(String, String, i64), usize> {
        let mut m = BTreeMap::new();
        for e in &self.entries {
            *m.entry((e.pattern.clone(), e.file.clone(), e.line)).or_insert(0) += 1;
        }
        m
    }
}

fn total_in(line: &str, key: &str) -> Option<i64> {
    // "# Gas Optimizations - (Total Vulnerabilities 12)"
    let i = line.find(key)?;
    let rest = &line[i + key.len()..];
    let num: String = rest.trim_start().chars().take_while(|c| c.is_ascii_digit() || *c == '-').collect();
    num.parse().ok()
}

pub fn parse_report(text: &str) -> Parsed {
    let mut p = Parsed::default();
    let fps = fingerprints();
    let mut current: Option<String> = None;
    let mut severity: Option<String> = None;
    let mut part = "none".to_string();
    let mut in_list = false;
    let mut list_had_section = false;
    for raw in text.split('\n') {
        let line = raw.strip_suffix('\r').unwrap_or(raw);
        if in_list {
            if let Some(rest) = line.strip_prefix("- ") {
                match rest.rfind(':') {
                    Some(i) => match rest[i + 1..].parse::<i64>() {
                        Ok(n) => {
                            if list_had_section {
                                p.entries.push(Entry {
                                    pattern: current.clone().unwrap_or_default(),
                                    file: rest[..i].to_string(),
                                    line: n,
                                    severity: severity.clone(),
                                    part: part.clone(),
                                });
                            }
                        }
                        Err(_) => p.problems.push(format!("entry without a line number: {line:?}")),
                    },
                    None => p.problems.push(format!("entry without ':': {line:?}")),
                }
                continue;
            }
            if line.trim().is_empty() {
                // blank lines inside or around the list do not end it
                continue;
            }
            in_list = false;
            // a pattern section is consumed by its list
            current = None;
        }
        let t = line.trim();
        if let Some(rest) = line.strip_prefix("- ") {
            // the explanatory sections contain no bullet lines: a `- file:line` line here is an entry
            // that belongs to no list
            if let Some(i) = rest.rfind(':') {
                if rest[i + 1..].parse::<i64>().is_ok() {
                    p.problems.push(format!("entry outside a '### Lines' list: {line:?}"));
                    continue;
                }
            }
        }
        if let Some(n) = total_in(t, "(Total Vulnerabilities") {
            if t.starts_with("# ") {
                p.total_vulnerabilities = Some(n);
                part = "vulnerabilities".into();
                severity = None;
                continue;
            }
        }
        if let Some(n) = total_in(t, "(Total Optimizations") {
            if t.starts_with("# ") {
                p.total_optimizations = Some(n);
                part = "optimizations".into();
                severity = None;
                continue;
            }
        }
        if t == "## High Risk" || t == "## Medium Risk" || t == "## Low Risk" {
            let s = t.trim_start_matches("## ").trim_end_matches(" Risk").to_string();
            p.severity_headings.push(s.clone());
            severity = Some(s);
            continue;
        }
        if t == "### Lines" {
            in_list = true;
            list_had_section = current.is_some();
            if current.is_none() {
                p.problems.push("a '### Lines' list that does not follow a pattern's explanatory section".into());
            }
            continue;
        }
        for (name, fp, exact) in fps.iter() {
            let hit = if *exact { t == fp.as_str() } else { t.starts_with(fp.as_str()) };
            if hit {
                if current.is_some() {
                    p.problems.push(format!("section of {} has no '### Lines' list", current.clone().unwrap()));
                }
                current = Some(name.to_string());
                p.sections.push(name.to_string());
                break;
            }
        }
    }
    if current.is_some() && !in_list {
        p.problems.push(format!("section of {} has no '### Lines' list", current.unwrap()));
    }
    p
}
