//! Reference traversal of a `solang_parser::pt` tree.
//!
//! Written from the grammar (`solidity.lalrpop`) and `pt.rs` only: an exhaustive
//! pre-order walk, children in grammar (= textual) order, with **no wildcard
//! arm** over `Expression`, `Statement`, `SourceUnitPart`, `ContractPart`,
//! `Type`, `FunctionAttribute` or `CatchClause`, so that a new parse-tree variant
//! is a compile error here and not a silently skipped sub-tree.  Inline assembly
//! is yielded as a node and never entered.  It shares no code with
//! `solstat::analyzer::ast`.

use solang_parser::pt::{self, CodeLocation, Loc};
use solstat::analyzer::ast::{Node, Target};

macro_rules! kinds {
    ($($name:ident),* $(,)?) => {
        /// Node kinds, one per `ast::Target` (by name).
        #[derive(Clone, Copy, Debug, PartialEq, Eq, Hash, PartialOrd, Ord)]
        pub enum K { $($name),* }
        pub const ALL_KINDS: &[K] = &[$(K::$name),*];
        impl K {
            pub fn to_target(self) -> Target {
                match self { $(K::$name => Target::$name),* }
            }
            pub fn name(self) -> &'static str {
                match self { $(K::$name => stringify!($name)),* }
            }
        }
    };
}

kinds!(
    Args, Return, Revert, RevertNamedArgs, Emit, Expression, VariableDefinition, Block, If, While,
    For, DoWhile, Try, Add, And, ArrayLiteral, ArraySlice, ArraySubscript, Assign, AssignAdd,
    AssignAnd, AssignDivide, AssignModulo, AssignMultiply, AssignOr, AssignShiftLeft,
    AssignShiftRight, AssignSubtract, AssignXor, BitwiseAnd, BitwiseOr, BitwiseXor, Complement,
    Delete, Divide, Equal, FunctionCall, FunctionCallBlock, Less, LessEqual, List, MemberAccess,
    Modulo, More, MoreEqual, Multiply, NamedFunctionCall, New, Not, NotEqual, Or, Parenthesis,
    PostDecrement, PostIncrement, PreIncrement, PreDecrement, ShiftLeft, ShiftRight, Subtract,
    Ternary, Type, Function, UnaryMinus, UnaryPlus, Unit, Power, BoolLiteral, NumberLiteral,
    RationalNumberLiteral, HexNumberLiteral, HexLiteral, StringLiteral, AddressLiteral, Variable,
    This, SourceUnit, ContractDefinition, EnumDefinition, EventDefinition, ErrorDefinition,
    FunctionDefinition, ImportDirective, PragmaDirective, StraySemicolon, StructDefinition,
    TypeDefinition, Using, None,
);

#[derive(Clone, Copy)]
pub enum NodeRef<'a> {
    SourceUnit(&'a pt::SourceUnit),
    Part(&'a pt::SourceUnitPart),
    CPart(&'a pt::ContractPart),
    Stmt(&'a pt::Statement),
    Expr(&'a pt::Expression),
}

impl<'a> NodeRef<'a> {
    pub fn to_node(&self) -> Node {
        match self {
            NodeRef::SourceUnit(s) => Node::SourceUnit((*s).clone()),
            NodeRef::Part(p) => Node::SourceUnitPart((*p).clone()),
            NodeRef::CPart(p) => Node::ContractPart((*p).clone()),
            NodeRef::Stmt(s) => Node::Statement((*s).clone()),
            NodeRef::Expr(e) => Node::Expression((*e).clone()),
        }
    }
    pub fn sort(&self) -> &'static str {
        match self {
            NodeRef::SourceUnit(_) => "file",
            NodeRef::Part(_) => "source-unit-part",
            NodeRef::CPart(_) => "contract-part",
            NodeRef::Stmt(_) => "statement",
            NodeRef::Expr(_) => "expression",
        }
    }
    pub fn loc(&self) -> Option<Loc> {
        match self {
            NodeRef::SourceUnit(_) => None,
            NodeRef::Part(p) => Some(*p.loc()),
            NodeRef::CPart(p) => Some(*p.loc()),
            NodeRef::Stmt(s) => Some(s.loc()),
            NodeRef::Expr(e) => Some(e.loc()),
        }
    }
    pub fn expr(&self) -> Option<&'a pt::Expression> {
        if let NodeRef::Expr(e) = self {
            Some(e)
        } else {
            None
        }
    }
    pub fn stmt(&self) -> Option<&'a pt::Statement> {
        if let NodeRef::Stmt(e) = self {
            Some(e)
        } else {
            None
        }
    }
}

/// Context of a node, maintained by the reference walk.
#[derive(Clone, Copy, Default)]
pub struct Ctx<'a> {
    pub depth: u32,
    /// number of enclosing `unchecked { }` blocks
    pub unchecked: u32,
    /// number of enclosing `for` *conditions*
    pub for_cond: u32,
    pub contract: Option<&'a pt::ContractDefinition>,
    pub func: Option<&'a pt::FunctionDefinition>,
    /// inside the body (not the head) of `func`
    pub in_body: bool,
    /// the node is a direct member of the source unit (free function, file-level variable ...)
    pub top_index: Option<usize>,
}

pub struct Item<'a> {
    pub node: NodeRef<'a>,
    pub kind: K,
    /// which slot of which parent the node sits in, e.g. "Power.right"
    pub class: &'static str,
    pub ctx: Ctx<'a>,
}

pub fn kind_of_statement(s: &pt::Statement) -> K {
    use pt::Statement as S;
    match s {
        S::Block { .. } => K::Block,
        S::Assembly { .. } => K::None,
        S::Args(..) => K::Args,
        S::If(..) => K::If,
        S::While(..) => K::While,
        S::Expression(..) => K::Expression,
        S::VariableDefinition(..) => K::VariableDefinition,
        S::For(..) => K::For,
        S::DoWhile(..) => K::DoWhile,
        S::Continue(..) => K::None,
        S::Break(..) => K::None,
        S::Return(..) => K::Return,
        S::Revert(..) => K::Revert,
        S::RevertNamedArgs(..) => K::RevertNamedArgs,
        S::Emit(..) => K::Emit,
        S::Try(..) => K::Try,
    }
}

pub fn kind_of_expression(e: &pt::Expression) -> K {
    use pt::Expression as E;
    match e {
        E::PostIncrement(..) => K::PostIncrement,
        E::PostDecrement(..) => K::PostDecrement,
        E::New(..) => K::New,
        E::ArraySubscript(..) => K::ArraySubscript,
        E::ArraySlice(..) => K::ArraySlice,
        E::Parenthesis(..) => K::Parenthesis,
        E::MemberAccess(..) => K::MemberAccess,
        E::FunctionCall(..) => K::FunctionCall,
        E::FunctionCallBlock(..) => K::FunctionCallBlock,
        E::NamedFunctionCall(..) => K::NamedFunctionCall,
        E::Not(..) => K::Not,
        E::Complement(..) => K::Complement,
        E::Delete(..) => K::Delete,
        E::PreIncrement(..) => K::PreIncrement,
        E::PreDecrement(..) => K::PreDecrement,
        E::UnaryPlus(..) => K::UnaryPlus,
        E::UnaryMinus(..) => K::UnaryMinus,
        E::Power(..) => K::Power,
        E::Multiply(..) => K::Multiply,
        E::Divide(..) => K::Divide,
        E::Modulo(..) => K::Modulo,
        E::Add(..) => K::Add,
        E::Subtract(..) => K::Subtract,
        E::ShiftLeft(..) => K::ShiftLeft,
        E::ShiftRight(..) => K::ShiftRight,
        E::BitwiseAnd(..) => K::BitwiseAnd,
        E::BitwiseXor(..) => K::BitwiseXor,
        E::BitwiseOr(..) => K::BitwiseOr,
        E::Less(..) => K::Less,
        E::More(..) => K::More,
        E::LessEqual(..) => K::LessEqual,
        E::MoreEqual(..) => K::MoreEqual,
        E::Equal(..) => K::Equal,
        E::NotEqual(..) => K::NotEqual,
        E::And(..) => K::And,
        E::Or(..) => K::Or,
        E::Ternary(..) => K::Ternary,
        E::Assign(..) => K::Assign,
        E::AssignOr(..) => K::AssignOr,
        E::AssignAnd(..) => K::AssignAnd,
        E::AssignXor(..) => K::AssignXor,
        E::AssignShiftLeft(..) => K::AssignShiftLeft,
        E::AssignShiftRight(..) => K::AssignShiftRight,
        E::AssignAdd(..) => K::AssignAdd,
        E::AssignSubtract(..) => K::AssignSubtract,
        E::AssignMultiply(..) => K::AssignMultiply,
        E::AssignDivide(..) => K::AssignDivide,
        E::AssignModulo(..) => K::AssignModulo,
        E::BoolLiteral(..) => K::BoolLiteral,
        E::NumberLiteral(..) => K::NumberLiteral,
        E::RationalNumberLiteral(..) => K::RationalNumberLiteral,
        E::HexNumberLiteral(..) => K::HexNumberLiteral,
        E::StringLiteral(..) => K::StringLiteral,
        E::Type(..) => K::Type,
        E::HexLiteral(..) => K::HexLiteral,
        E::AddressLiteral(..) => K::AddressLiteral,
        E::Variable(..) => K::Variable,
        E::List(..) => K::List,
        E::ArrayLiteral(..) => K::ArrayLiteral,
        E::Unit(..) => K::Unit,
        E::This(..) => K::This,
    }
}

pub fn kind_of_part(p: &pt::SourceUnitPart) -> K {
    use pt::SourceUnitPart as P;
    match p {
        P::ContractDefinition(_) => K::ContractDefinition,
        P::PragmaDirective(..) => K::PragmaDirective,
        P::ImportDirective(_) => K::ImportDirective,
        P::EnumDefinition(_) => K::EnumDefinition,
        P::StructDefinition(_) => K::StructDefinition,
        P::EventDefinition(_) => K::EventDefinition,
        P::ErrorDefinition(_) => K::ErrorDefinition,
        P::FunctionDefinition(_) => K::FunctionDefinition,
        P::VariableDefinition(_) => K::VariableDefinition,
        P::TypeDefinition(_) => K::TypeDefinition,
        P::Using(_) => K::Using,
        P::StraySemicolon(_) => K::StraySemicolon,
    }
}

pub fn kind_of_cpart(p: &pt::ContractPart) -> K {
    use pt::ContractPart as P;
    match p {
        P::StructDefinition(_) => K::StructDefinition,
        P::EventDefinition(_) => K::EventDefinition,
        P::EnumDefinition(_) => K::EnumDefinition,
        P::ErrorDefinition(_) => K::ErrorDefinition,
        P::VariableDefinition(_) => K::VariableDefinition,
        P::FunctionDefinition(_) => K::FunctionDefinition,
        P::TypeDefinition(_) => K::TypeDefinition,
        P::StraySemicolon(_) => K::StraySemicolon,
        P::Using(_) => K::Using,
    }
}

pub fn kind_of(n: &NodeRef) -> K {
    match n {
        NodeRef::SourceUnit(_) => K::SourceUnit,
        NodeRef::Part(p) => kind_of_part(p),
        NodeRef::CPart(p) => kind_of_cpart(p),
        NodeRef::Stmt(s) => kind_of_statement(s),
        NodeRef::Expr(e) => kind_of_expression(e),
    }
}

pub struct Walker<'a> {
    pub out: Vec<Item<'a>>,
}

impl<'a> Walker<'a> {
    fn push(&mut self, node: NodeRef<'a>, class: &'static str, ctx: Ctx<'a>) {
        let kind = kind_of(&node);
        self.out.push(Item { node, kind, class, ctx });
    }

    pub fn source_unit(&mut self, su: &'a pt::SourceUnit) {
        let ctx = Ctx::default();
        self.push(NodeRef::SourceUnit(su), "root", ctx);
        for (i, p) in su.0.iter().enumerate() {
            let mut c = child(ctx);
            c.top_index = Some(i);
            self.part(p, "SourceUnit.part", c);
        }
    }

    pub fn from(&mut self, root: NodeRef<'a>) {
        let ctx = Ctx::default();
        match root {
            NodeRef::SourceUnit(su) => self.source_unit(su),
            NodeRef::Part(p) => self.part(p, "root", ctx),
            NodeRef::CPart(p) => self.cpart(p, "root", ctx),
            NodeRef::Stmt(s) => self.stmt(s, "root", ctx),
            NodeRef::Expr(e) => self.expr(e, "root", ctx),
        }
    }

    fn params(&mut self, list: &'a pt::ParameterList, class: &'static str, ctx: Ctx<'a>) {
        for (_, p) in list {
            if let Some(p) = p {
                self.expr(&p.ty, class, ctx);
            }
        }
    }

    fn attributes(
        &mut self,
        attrs: &'a [pt::FunctionAttribute],
        class_arg: &'static str,
        class_nv: &'static str,
        ctx: Ctx<'a>,
    ) {
        use pt::FunctionAttribute as A;
        for a in attrs {
            match a {
                A::Mutability(_) => {}
                A::Visibility(_) => {}
                A::Virtual(_) => {}
                A::Immutable(_) => {}
                A::Override(_, _) => {}
                A::BaseOrModifier(_, base) => {
                    if let Some(args) = &base.args {
                        for e in args {
                            self.expr(e, class_arg, ctx);
                        }
                    }
                }
                A::NameValue(_, _, e) => self.expr(e, class_nv, ctx),
            }
        }
    }

    fn function(&mut self, f: &'a pt::FunctionDefinition, ctx: Ctx<'a>, file_level: bool) {
        let mut c = ctx;
        c.func = Some(f);
        c.in_body = false;
        let (pc, ac, nc, rc, bc) = if file_level {
            (
                "FreeFunction.param.type",
                "FreeFunction.attribute.argument",
                "FreeFunction.attribute.namevalue",
                "FreeFunction.return.type",
                "FreeFunction.body",
            )
        } else {
            match f.ty {
                pt::FunctionTy::Constructor => (
                    "Constructor.param.type",
                    "Constructor.attribute.argument",
                    "Constructor.attribute.namevalue",
                    "Constructor.return.type",
                    "Constructor.body",
                ),
                pt::FunctionTy::Modifier => (
                    "Modifier.param.type",
                    "Modifier.attribute.argument",
                    "Modifier.attribute.namevalue",
                    "Modifier.return.type",
                    "Modifier.body",
                ),
                pt::FunctionTy::Fallback | pt::FunctionTy::Receive => (
                    "Fallback.param.type",
                    "Fallback.attribute.argument",
                    "Fallback.attribute.namevalue",
                    "Fallback.return.type",
                    "Fallback.body",
                ),
                pt::FunctionTy::Function => (
                    "Function.param.type",
                    "Function.attribute.argument",
                    "Function.attribute.namevalue",
                    "Function.return.type",
                    "Function.body",
                ),
            }
        };
        self.params(&f.params, pc, c);
        self.attributes(&f.attributes, ac, nc, c);
        self.params(&f.returns, rc, c);
        if let Some(b) = &f.body {
            let mut cb = c;
            cb.in_body = true;
            self.stmt(b, bc, cb);
        }
    }

    pub fn part(&mut self, p: &'a pt::SourceUnitPart, class: &'static str, ctx: Ctx<'a>) {
        use pt::SourceUnitPart as P;
        self.push(NodeRef::Part(p), class, ctx);
        let c = child(ctx);
        match p {
            P::ContractDefinition(cd) => {
                let mut cc = c;
                cc.contract = Some(cd);
                for b in &cd.base {
                    if let Some(args) = &b.args {
                        for e in args {
                            self.expr(e, "Contract.base.argument", cc);
                        }
                    }
                }
                for part in &cd.parts {
                    self.cpart(part, "Contract.part", cc);
                }
            }
            P::PragmaDirective(..) => {}
            P::ImportDirective(_) => {}
            P::EnumDefinition(_) => {}
            P::StructDefinition(sd) => {
                for f in &sd.fields {
                    self.expr(&f.ty, "FileStruct.field.type", c);
                }
            }
            P::EventDefinition(ed) => {
                for f in &ed.fields {
                    self.expr(&f.ty, "FileEvent.field.type", c);
                }
            }
            P::ErrorDefinition(ed) => {
                for f in &ed.fields {
                    self.expr(&f.ty, "FileError.field.type", c);
                }
            }
            P::FunctionDefinition(f) => self.function(f, c, true),
            P::VariableDefinition(v) => {
                self.expr(&v.ty, "FileVariable.type", c);
                if let Some(e) = &v.initializer {
                    self.expr(e, "FileVariable.initializer", c);
                }
            }
            P::TypeDefinition(t) => self.expr(&t.ty, "FileTypeDefinition.type", c),
            P::Using(u) => {
                if let Some(t) = &u.ty {
                    self.expr(t, "FileUsing.type", c);
                }
            }
            P::StraySemicolon(_) => {}
        }
    }

    pub fn cpart(&mut self, p: &'a pt::ContractPart, class: &'static str, ctx: Ctx<'a>) {
        use pt::ContractPart as P;
        self.push(NodeRef::CPart(p), class, ctx);
        let c = child(ctx);
        match p {
            P::StructDefinition(sd) => {
                for f in &sd.fields {
                    self.expr(&f.ty, "Struct.field.type", c);
                }
            }
            P::EventDefinition(ed) => {
                for f in &ed.fields {
                    self.expr(&f.ty, "Event.field.type", c);
                }
            }
            P::EnumDefinition(_) => {}
            P::ErrorDefinition(ed) => {
                for f in &ed.fields {
                    self.expr(&f.ty, "Error.field.type", c);
                }
            }
            P::VariableDefinition(v) => {
                self.expr(&v.ty, "StateVariable.type", c);
                if let Some(e) = &v.initializer {
                    self.expr(e, "StateVariable.initializer", c);
                }
            }
            P::FunctionDefinition(f) => self.function(f, c, false),
            P::TypeDefinition(t) => self.expr(&t.ty, "TypeDefinition.type", c),
            P::StraySemicolon(_) => {}
            P::Using(u) => {
                if let Some(t) = &u.ty {
                    self.expr(t, "Using.type", c);
                }
            }
        }
    }

    pub fn stmt(&mut self, s: &'a pt::Statement, class: &'static str, ctx: Ctx<'a>) {
        use pt::Statement as S;
        self.push(NodeRef::Stmt(s), class, ctx);
        let c = child(ctx);
        match s {
            S::Block { unchecked, statements, .. } => {
                let mut cb = c;
                if *unchecked {
                    cb.unchecked += 1;
                }
                for st in statements {
                    self.stmt(st, if *unchecked { "UncheckedBlock.statement" } else { "Block.statement" }, cb);
                }
            }
            S::Assembly { .. } => {}
            S::Args(_, args) => {
                for a in args {
                    self.expr(&a.expr, "Args.value", c);
                }
            }
            S::If(_, cond, then, els) => {
                self.expr(cond, "If.condition", c);
                self.stmt(then, "If.then", c);
                if let Some(e) = els {
                    self.stmt(e, "If.else", c);
                }
            }
            S::While(_, cond, body) => {
                self.expr(cond, "While.condition", c);
                self.stmt(body, "While.body", c);
            }
            S::Expression(_, e) => self.expr(e, "ExpressionStatement.expression", c),
            S::VariableDefinition(_, decl, init) => {
                self.expr(&decl.ty, "LocalVariable.type", c);
                if let Some(e) = init {
                    self.expr(e, "LocalVariable.initializer", c);
                }
            }
            S::For(_, init, cond, next, body) => {
                if let Some(i) = init {
                    self.stmt(i, "For.init", c);
                }
                if let Some(e) = cond {
                    let mut cc = c;
                    cc.for_cond += 1;
                    self.expr(e, "For.condition", cc);
                }
                if let Some(n) = next {
                    self.stmt(n, "For.next", c);
                }
                if let Some(b) = body {
                    self.stmt(b, "For.body", c);
                }
            }
            S::DoWhile(_, body, cond) => {
                self.stmt(body, "DoWhile.body", c);
                self.expr(cond, "DoWhile.condition", c);
            }
            S::Continue(_) => {}
            S::Break(_) => {}
            S::Return(_, e) => {
                if let Some(e) = e {
                    self.expr(e, "Return.value", c);
                }
            }
            S::Revert(_, _, args) => {
                for e in args {
                    self.expr(e, "Revert.argument", c);
                }
            }
            S::RevertNamedArgs(_, _, args) => {
                for a in args {
                    self.expr(&a.expr, "RevertNamedArgs.value", c);
                }
            }
            S::Emit(_, e) => self.expr(e, "Emit.call", c),
            S::Try(_, e, returns, clauses) => {
                self.expr(e, "Try.expression", c);
                if let Some((params, body)) = returns {
                    self.params(params, "Try.returns.type", c);
                    self.stmt(body, "Try.body", c);
                }
                for cl in clauses {
                    match cl {
                        pt::CatchClause::Simple(_, param, body) => {
                            if let Some(p) = param {
                                self.expr(&p.ty, "Catch.param.type", c);
                            }
                            self.stmt(body, "Catch.body", c);
                        }
                        pt::CatchClause::Named(_, _, param, body) => {
                            self.expr(&param.ty, "CatchNamed.param.type", c);
                            self.stmt(body, "CatchNamed.body", c);
                        }
                    }
                }
            }
        }
    }

    fn bin(
        &mut self,
        l: &'a pt::Expression,
        r: &'a pt::Expression,
        lc: &'static str,
        rc: &'static str,
        c: Ctx<'a>,
    ) {
        self.expr(l, lc, c);
        self.expr(r, rc, c);
    }

    pub fn expr(&mut self, e: &'a pt::Expression, class: &'static str, ctx: Ctx<'a>) {
        use pt::Expression as E;
        self.push(NodeRef::Expr(e), class, ctx);
        let c = child(ctx);
        match e {
            E::PostIncrement(_, x) => self.expr(x, "PostIncrement.operand", c),
            E::PostDecrement(_, x) => self.expr(x, "PostDecrement.operand", c),
            E::New(_, x) => self.expr(x, "New.operand", c),
            E::ArraySubscript(_, b, i) => {
                self.expr(b, "ArraySubscript.base", c);
                if let Some(i) = i {
                    self.expr(i, "ArraySubscript.index", c);
                }
            }
            E::ArraySlice(_, b, f, t) => {
                self.expr(b, "ArraySlice.base", c);
                if let Some(f) = f {
                    self.expr(f, "ArraySlice.from", c);
                }
                if let Some(t) = t {
                    self.expr(t, "ArraySlice.to", c);
                }
            }
            E::Parenthesis(_, x) => self.expr(x, "Parenthesis.inner", c),
            E::MemberAccess(_, x, _) => self.expr(x, "MemberAccess.object", c),
            E::FunctionCall(_, f, args) => {
                self.expr(f, "FunctionCall.callee", c);
                for a in args {
                    self.expr(a, "FunctionCall.argument", c);
                }
            }
            E::FunctionCallBlock(_, f, b) => {
                self.expr(f, "FunctionCallBlock.callee", c);
                self.stmt(b, "FunctionCallBlock.block", c);
            }
            E::NamedFunctionCall(_, f, args) => {
                self.expr(f, "NamedFunctionCall.callee", c);
                for a in args {
                    self.expr(&a.expr, "NamedFunctionCall.value", c);
                }
            }
            E::Not(_, x) => self.expr(x, "Not.operand", c),
            E::Complement(_, x) => self.expr(x, "Complement.operand", c),
            E::Delete(_, x) => self.expr(x, "Delete.operand", c),
            E::PreIncrement(_, x) => self.expr(x, "PreIncrement.operand", c),
            E::PreDecrement(_, x) => self.expr(x, "PreDecrement.operand", c),
            E::UnaryPlus(_, x) => self.expr(x, "UnaryPlus.operand", c),
            E::UnaryMinus(_, x) => self.expr(x, "UnaryMinus.operand", c),
            E::Power(_, l, r) => self.bin(l, r, "Power.left", "Power.right", c),
            E::Multiply(_, l, r) => self.bin(l, r, "Multiply.left", "Multiply.right", c),
            E::Divide(_, l, r) => self.bin(l, r, "Divide.left", "Divide.right", c),
            E::Modulo(_, l, r) => self.bin(l, r, "Modulo.left", "Modulo.right", c),
            E::Add(_, l, r) => self.bin(l, r, "Add.left", "Add.right", c),
            E::Subtract(_, l, r) => self.bin(l, r, "Subtract.left", "Subtract.right", c),
            E::ShiftLeft(_, l, r) => self.bin(l, r, "ShiftLeft.left", "ShiftLeft.right", c),
            E::ShiftRight(_, l, r) => self.bin(l, r, "ShiftRight.left", "ShiftRight.right", c),
            E::BitwiseAnd(_, l, r) => self.bin(l, r, "BitwiseAnd.left", "BitwiseAnd.right", c),
            E::BitwiseXor(_, l, r) => self.bin(l, r, "BitwiseXor.left", "BitwiseXor.right", c),
            E::BitwiseOr(_, l, r) => self.bin(l, r, "BitwiseOr.left", "BitwiseOr.right", c),
            E::Less(_, l, r) => self.bin(l, r, "Less.left", "Less.right", c),
            E::More(_, l, r) => self.bin(l, r, "More.left", "More.right", c),
            E::LessEqual(_, l, r) => self.bin(l, r, "LessEqual.left", "LessEqual.right", c),
            E::MoreEqual(_, l, r) => self.bin(l, r, "MoreEqual.left", "MoreEqual.right", c),
            E::Equal(_, l, r) => self.bin(l, r, "Equal.left", "Equal.right", c),
            E::NotEqual(_, l, r) => self.bin(l, r, "NotEqual.left", "NotEqual.right", c),
            E::And(_, l, r) => self.bin(l, r, "And.left", "And.right", c),
            E::Or(_, l, r) => self.bin(l, r, "Or.left", "Or.right", c),
            E::Ternary(_, a, b, d) => {
                self.expr(a, "Ternary.condition", c);
                self.expr(b, "Ternary.then", c);
                self.expr(d, "Ternary.else", c);
            }
            E::Assign(_, l, r) => self.bin(l, r, "Assign.left", "Assign.right", c),
            E::AssignOr(_, l, r) => self.bin(l, r, "AssignOr.left", "AssignOr.right", c),
            E::AssignAnd(_, l, r) => self.bin(l, r, "AssignAnd.left", "AssignAnd.right", c),
            E::AssignXor(_, l, r) => self.bin(l, r, "AssignXor.left", "AssignXor.right", c),
            E::AssignShiftLeft(_, l, r) => {
                self.bin(l, r, "AssignShiftLeft.left", "AssignShiftLeft.right", c)
            }
            E::AssignShiftRight(_, l, r) => {
                self.bin(l, r, "AssignShiftRight.left", "AssignShiftRight.right", c)
            }
            E::AssignAdd(_, l, r) => self.bin(l, r, "AssignAdd.left", "AssignAdd.right", c),
            E::AssignSubtract(_, l, r) => {
                self.bin(l, r, "AssignSubtract.left", "AssignSubtract.right", c)
            }
            E::AssignMultiply(_, l, r) => {
                self.bin(l, r, "AssignMultiply.left", "AssignMultiply.right", c)
            }
            E::AssignDivide(_, l, r) => self.bin(l, r, "AssignDivide.left", "AssignDivide.right", c),
            E::AssignModulo(_, l, r) => self.bin(l, r, "AssignModulo.left", "AssignModulo.right", c),
            E::BoolLiteral(..) => {}
            E::NumberLiteral(..) => {}
            E::RationalNumberLiteral(..) => {}
            E::HexNumberLiteral(..) => {}
            E::StringLiteral(_) => {}
            E::Type(_, ty) => self.ty(ty, c),
            E::HexLiteral(_) => {}
            E::AddressLiteral(..) => {}
            E::Variable(_) => {}
            E::List(_, params) => self.params(params, "List.element", c),
            E::ArrayLiteral(_, xs) => {
                for x in xs {
                    self.expr(x, "ArrayLiteral.element", c);
                }
            }
            E::Unit(_, x, _) => self.expr(x, "Unit.operand", c),
            E::This(_) => {}
        }
    }

    fn ty(&mut self, ty: &'a pt::Type, c: Ctx<'a>) {
        use pt::Type as T;
        match ty {
            T::Address => {}
            T::AddressPayable => {}
            T::Payable => {}
            T::Bool => {}
            T::String => {}
            T::Int(_) => {}
            T::Uint(_) => {}
            T::Bytes(_) => {}
            T::Rational => {}
            T::DynamicBytes => {}
            T::Mapping(_, k, v) => {
                self.expr(k, "Mapping.key", c);
                self.expr(v, "Mapping.value", c);
            }
            T::Function { params, attributes, returns } => {
                self.params(params, "FunctionType.param.type", c);
                self.attributes(
                    attributes,
                    "FunctionType.attribute.argument",
                    "FunctionType.attribute.namevalue",
                    c,
                );
                if let Some((rp, ra)) = returns {
                    self.params(rp, "FunctionType.return.type", c);
                    self.attributes(
                        ra,
                        "FunctionType.returns.attribute.argument",
                        "FunctionType.returns.attribute.namevalue",
                        c,
                    );
                }
            }
        }
    }
}

fn child<'a>(ctx: Ctx<'a>) -> Ctx<'a> {
    let mut c = ctx;
    c.depth += 1;
    c.top_index = ctx.top_index;
    c
}

/// Reference traversal of a whole file.
pub fn walk_source_unit(su: &pt::SourceUnit) -> Vec<Item<'_>> {
    let mut w = Walker { out: Vec::new() };
    w.source_unit(su);
    w.out
}

/// Reference traversal starting at an arbitrary node.
pub fn walk_from(root: NodeRef<'_>) -> Vec<Item<'_>> {
    let mut w = Walker { out: Vec::new() };
    w.from(root);
    w.out
}

/// Maximum nesting depth of a file according to the reference traversal.
pub fn max_depth(su: &pt::SourceUnit) -> u32 {
    walk_source_unit(su).iter().map(|i| i.ctx.depth).max().unwrap_or(0)
}

/// Position classes the repository's own 70 tests already reach; an expected
/// node outside these makes a C01 case non-trivial.
pub const TEST_REACHED_CLASSES: &[&str] = &[
    "root",
    "SourceUnit.part",
    "Contract.part",
    "Function.body",
    "Constructor.body",
    "Block.statement",
    "ExpressionStatement.expression",
    "FunctionCall.argument",
    "FunctionCall.callee",
    "StateVariable.type",
    "StateVariable.initializer",
    "LocalVariable.type",
    "LocalVariable.initializer",
    "Assign.left",
    "Assign.right",
    "Add.left",
    "Add.right",
    "Subtract.left",
    "Subtract.right",
    "Multiply.left",
    "Multiply.right",
    "Divide.left",
    "Divide.right",
    "If.condition",
    "If.then",
    "For.init",
    "For.condition",
    "For.next",
    "For.body",
    "MemberAccess.object",
    "Function.param.type",
    "Function.return.type",
    "Return.value",
    "Equal.left",
    "Equal.right",
    "NotEqual.left",
    "NotEqual.right",
    "ArraySubscript.base",
    "ArraySubscript.index",
    "Parenthesis.inner",
];
