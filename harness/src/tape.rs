//! Byte tape -> choices.  One decoder shared by proptest (which generates and
//! shrinks `Vec<u8>`) and libFuzzer (which mutates the same bytes).
//!
//! Conventions that make shrinking work: byte value 0 always selects the first
//! (simplest) alternative, an exhausted tape yields 0, and indices are mapped
//! monotonically (`b * n >> 8`), never with `%`.

pub struct Tape<'a> {
    data: &'a [u8],
    pos: usize,
}

impl<'a> Tape<'a> {
    pub fn new(data: &'a [u8]) -> Self {
        Tape { data, pos: 0 }
    }

    pub fn exhausted(&self) -> bool {
        self.pos >= self.data.len()
    }

    pub fn consumed(&self) -> usize {
        self.pos
    }

    pub fn byte(&mut self) -> u8 {
        if self.pos < self.data.len() {
            let b = self.data[self.pos];
            self.pos += 1;
            b
        } else {
            0
        }
    }

    /// A number in `0..n` (n >= 1).  Monotone in the byte(s) read.
    pub fn below(&mut self, n: usize) -> usize {
        if n <= 1 {
            return 0;
        }
        if n <= 256 {
            (self.byte() as usize * n) >> 8
        } else {
            let hi = self.byte() as usize;
            let lo = self.byte() as usize;
            (((hi << 8) | lo) * n) >> 16
        }
    }

    /// A number in `lo..=hi`.
    pub fn range(&mut self, lo: usize, hi: usize) -> usize {
        lo + self.below(hi - lo + 1)
    }

    /// True with probability about `num/256`; false on byte 0 / exhausted tape.
    pub fn chance(&mut self, num: u32) -> bool {
        let b = self.byte() as u32;
        b != 0 && (256 - b) <= num
    }

    pub fn pick<'b, T>(&mut self, xs: &'b [T]) -> &'b T {
        &xs[self.below(xs.len())]
    }

    pub fn u16(&mut self) -> u16 {
        ((self.byte() as u16) << 8) | self.byte() as u16
    }

    pub fn u64(&mut self) -> u64 {
        let mut v = 0u64;
        for _ in 0..8 {
            v = (v << 8) | self.byte() as u64;
        }
        v
    }

    /// Fisher-Yates permutation of 0..n driven by the tape (identity on zeros).
    pub fn permutation(&mut self, n: usize) -> Vec<usize> {
        let mut v: Vec<usize> = (0..n).collect();
        for i in 0..n {
            let j = i + self.below(n - i);
            v.swap(i, j);
        }
        v
    }
}
