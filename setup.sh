#!/bin/bash
# MANIFEST.setup_cmd: offline build of the harness (two profiles) and of the solstat binary.
set -eu
VERIF="$(cd "$(dirname "$0")" && pwd)"
export CARGO_NET_OFFLINE=true
cd "$VERIF/harness"
cargo build --offline --profile release --bin vcheck --target-dir "$VERIF/target"
cargo build --offline --profile checked --bin vcheck --target-dir "$VERIF/target"
cd /repo
cargo build --offline --release --bin solstat --target-dir "$VERIF/target/solstat-bin"
echo "setup ok"
