#!/usr/bin/env python3
"""Regenerate Appendix A of DESIGN.md (tables of seeded changes and which checks catch them) from seeded/*/meta.json."""
import json, glob, os, re
V = os.path.dirname(os.path.dirname(os.path.abspath(__file__)))
def short(s, n=150):
    s = re.sub(r'\s+', ' ', str(s or '')).replace('|', '/')
    return s if len(s) <= n else s[:n-1] + '…'
rows_prefix = []
for d in sorted(glob.glob(os.path.join(V, 'seeded', 'prefix-*'))):
    m = json.load(open(os.path.join(d, 'meta.json')))
    name = os.path.basename(d)
    res = []
    for r in m.get('results', []):
        for k, v in r.items():
            variant = k.split()[1] if len(k.split()) > 1 else ''
            for line in v:
                parts = line.split()
                res.append(f"{parts[0]} {parts[1]} `{' '.join(parts[3:])}` ({variant}, {parts[2].replace('secs=','')} s)")
    rows_prefix.append(f"| {name} | {'<br>'.join(res)} |")
rows = []
for d in sorted(glob.glob(os.path.join(V, 'seeded', 'C??-m?')) + glob.glob(os.path.join(V, 'seeded', 'F??-b?')) + glob.glob(os.path.join(V, 'seeded', 'M??-b?')) + glob.glob(os.path.join(V, 'seeded', 'N?-b?'))):
    m = json.load(open(os.path.join(d, 'meta.json')))
    name = os.path.basename(d)
    res = m.get('results_in_order') or (m.get('results_first_run', []) + m.get('results_after_strengthening', []))
    first = res[0] if res else ''
    missed = m['missed_at_first'] if 'missed_at_first' in m else ('exit=0' in first)
    caught = [r for r in res if 'exit=1' in r]
    def fmt(r):
        p = r.split()
        return f"{p[0]} `{' '.join(p[3:])[:90]}`" if len(p) > 3 and p[2].startswith('secs=') else short(r, 140)
    col = ('**missed at first**; ' if missed else '') + '; '.join(fmt(r) for r in caught[:3])
    note = m.get('strengthening_that_made_the_named_check_catch_it') or ''
    if missed and not note:
        note = '; '.join(m.get('results_after_strengthening', []))[:160]
    rows.append(f"| {name} | {short(m.get('summary'), 170)} | {short(m.get('needs_to_manifest'), 130)} | {col} | {short(note, 150)} |")
out = []
out.append("### A.1 Pre-fix versions of the repaired defects (reverse of the `fix:` commits)\n")
out.append("Applied with `tools/run_mutant.sh seeded/<name>/{fix.diff -R | mutant-*.diff} <IDs>`; quick tier, seed 0.\n")
out.append("| mutant | caught by: check, exit, signature (variant, time incl. rebuild and shrinking) |\n|---|---|")
out += rows_prefix
out.append("\n### A.2 Changes written by independent sub-agents (given only the property text and a scratch worktree)\n")
out.append("Each was confirmed with `tools/verify_mutant.sh` (existing 70 tests pass with the change, its demonstration fails with it and passes without it) and then run with `tools/run_mutant.sh seeded/<name>/patch.diff <ID>` (quick tier). m1/m2 = first round, m3/m4 = second round (agents were told the first-round changes and asked for different mechanisms), m5/m6 = third round, F??-b? = fourth round (one code region per agent), M??-b? = fifth round (one mechanism theme per agent), N?-b? = sixth round (two or three properties per agent).\n")
out.append("| change | what it does | needs | caught by | strengthening made after a miss |\n|---|---|---|---|---|")
out += rows
text = "\n".join(out) + "\n"
p = os.path.join(V, 'DESIGN.md')
s = open(p).read()
a = s.index('<!-- APPENDIX-A-TABLES-BEGIN -->') + len('<!-- APPENDIX-A-TABLES-BEGIN -->')
b = s.index('<!-- APPENDIX-A-TABLES-END -->')
s = s[:a] + "\n" + text + s[b:]
open(p, 'w').write(s)
print("appendix tables:", len(rows_prefix), "pre-fix,", len(rows), "agent mutants;", sum('missed at first' in r for r in rows), "missed at first")
