#!/usr/bin/env python3
"""Generate /verif/MANIFEST.json from the table below (keeps it schema-valid)."""
import json, os, sys
V = os.path.dirname(os.path.dirname(os.path.abspath(__file__)))

CHECKS = {
 "C01": dict(
   technique="property-based testing: differential against an independent exhaustive reference traversal (proptest on byte tapes + bounded-exhaustive slot matrix)",
   text="Generated-input search. Every (file, root node, kind set) case compares solstat's tree search, as a sequence of Node values, with an independent pre-order reference traversal filtered by kind (both directions: nothing missing, duplicated, foreign or out of order). The slot matrix enumerates every child slot of every parse-tree variant x 18+8+4 markers completely on every run; proptest adds thousands of random programs with random roots and kind sets and shrinks failures on the byte tape. Exploration, not proof: absence of a counterexample within the explored programs.",
   note="Trusted: solang-parser 0.1.18 (shared front end), the reference traversal in harness/src/refmodel/walk.rs (exhaustive matches, no wildcard arms), proptest, rustc.",
   design="DESIGN.md section 5 C01"),
 "C02": dict(
   technique="property-based testing: reference line model (bounded-exhaustive short strings + random Unicode texts) and differential end-to-end check of the loc-set to line-set step under generated re-layouts",
   text="Generated-input search. (a) get_line_number is compared with the model 1 + #LF-before-offset for every string of length <= 7 (thorough: 9) over {a, LF, CR, 2-byte char, blank} at every non-blank offset (complete enumeration) and for random Unicode texts with LF/CRLF/lone-CR mixes and for texts with runs of 255..70001 equal symbols at nine alignments; (b) for generated programs in 4 fixed and 2 random layouts (comments, CRLF, multi-byte, no final newline) and all 30 patterns, analyze_for_* must equal the lines of the detector's own locations under the model. Exploration; which location each detector must choose is pinned by C05-C08/C17.",
   note="Trusted: the line model taken from the property statement, solang-parser locations, proptest.",
   design="DESIGN.md section 5 C02"),
 "C04": dict(
   technique="property-based testing / fuzzing for totality: generated and feature-directed parser-accepted files, all 30 detectors under catch_unwind, two build profiles",
   text="Generated-input search for aborts. Every parser-accepted file (feature-directed list: no/odd/huge pragmas, free functions, literals beyond u32..2^256 and with exponents, zero-argument calls, 254..600 functions before a constructor, deep and wide files; plus tape-decoded random programs with arbitrary pragma placement, deep and wide streams) is run through all 30 analyze_for_* entry points under catch_unwind, in a build with overflow checks/debug assertions and in one without. A panic is a violation keyed by its source location. Exploration: totality is only shown on what was generated.",
   note="Trusted: solang-parser (inputs it rejects or panics on are outside the domain), the panic hook/catch_unwind capture, proptest.",
   design="DESIGN.md section 5 C04"),
 "C03": dict(
   technique="property-based testing: model-based comparison of analyze_dir with the union of per-file analyses over generated directory trees and creation (= listing) orders",
   text="Generated-input search. Tape-decoded directory trees (depth <= 3, eligible files from a pool where most patterns fire, inert files, same base names in several directories) are created on tmpfs in a generated creation order, which fixes the listing order; for a generated pattern subset and order, analyze_dir of all three categories must equal, as a multiset of (pattern, file, line set), the harness' own per-file analysis of the spec (files reached only through a symbolic link to a directory are optional, but all-or-nothing per file); fixed deep (5..40 levels) and wide (300 files) shapes, hard-linked, white-space-only and lone-CR files are included. A sample of trees also goes through the binary and the report parser. Exploration over trees and listing orders.",
   note="Trusted: analyze_for_* as the per-file reference named by the property, the tree materialiser, tmpfs listing order only for classification.",
   design="DESIGN.md section 5 C03"),
 "C10": dict(
   technique="property-based testing: reference slot model, bounded-exhaustive size sequences and type keywords, generated contracts/structs with an exact permutation optimum",
   text="Generated-input search. storage_slots_used is compared with a position-based slot model on every sequence of length <= 4 (thorough 5) over the 32 byte-granular sizes (complete) and random sequences up to 64; get_type_size on the complete keyword list; generated files with several contracts/structs are checked against the exact optimum over all member permutations (reported => improvable, optimal => not reported, sorting saves => reported). Exploration, complete on the listed finite sub-domains.",
   note="Trusted: the slot model (written from Solidity's layout rule as quoted in the property), the size table in the property statement.",
   design="DESIGN.md section 5 C10"),
 "C11": dict(
   technique="property-based testing: round trip of generated findings maps through an independent report parser; sampled end-to-end runs of the binary",
   text="Generated-input search. proptest generates findings maps for each category (any pattern subset and insertion order, adversarial file names, any line numbers); the rendered report is read back by an independent parser with a hand-written fingerprint per pattern section and must reproduce exactly the multiset of (pattern, file, line), each entry under its own section, a section iff findings. Binary runs on generated trees are compared the same way. Exploration.",
   note="Trusted: the report parser and its 30 fingerprints (checked unique over all section texts).",
   design="DESIGN.md section 5 C11"),
 "C12": dict(
   technique="property-based testing: invariants of the parsed report (totals, severity headings, category parts) over generated findings maps; all 16 vulnerability subsets enumerated",
   text="Generated-input search. For every subset of the four vulnerability patterns (all 16, complete) with random multiplicities, and random optimisation maps: printed total = number of listed entries, a severity heading is present iff a finding of that severity exists, every vulnerability sits under its own severity; binary runs on generated trees check that a category part is present iff that category has findings. Exploration, complete over the 16 subsets.",
   note="Trusted: the report parser; severity table from the property statement.",
   design="DESIGN.md section 5 C12"),
 "C13": dict(
   technique="property-based testing: metamorphic relation (permutation of insertion/discovery order, fresh hash seeds, separate processes) with byte equality as oracle",
   text="Generated-input search. The same findings set is rendered 6 times from fresh HashMaps (new hasher keys) filled in permuted insertion order with permuted file vectors; the same tree content is created in 4 different orders (different listing orders) and analysed by 4 separate processes; all outputs must be byte-identical. Exploration: processes and hash seeds are sampled.",
   note="Trusted: std HashMap RandomState gives each fresh map new keys; tmpfs listing order depends on creation order (observed and counted).",
   design="DESIGN.md section 5 C13"),
 "C16": dict(
   technique="property-based testing: metamorphic relation (delete every non-eligible file) plus model comparison with an independent eligibility predicate over generated trees",
   text="Generated-input search. Trees mix eligible files with inert ones of every name class (*.t.sol in any case, .SOL, .sol in the middle, no extension) and content class (unparseable, invalid UTF-8, empty, valid program with findings) at every depth; analyze_dir(tree) must equal analyze_dir(tree without inert files) and the union over eligible files, and must not fail; binary runs must exit 0. Exploration.",
   note="Trusted: eligibility predicate from the property statement; names the statement does not decide are not generated (counted).",
   design="DESIGN.md section 5 C16"),
 "C05": dict(
   technique="property-based testing: differential against independent reference detectors (must-report / may-report line sets) over generated programs and layouts",
   text="Generated-input search. Programs from the slot matrix (one token per line, so a line identifies a token) and tape-decoded random programs with planted canonical forms and near misses are analysed in three layouts; for each detector of the group the reported lines must contain the line of every canonical instance found by an independent reference detector and may contain only lines of canonical or explicitly undecided instances (DESIGN section 8 fixes the forms). proptest shrinks failures on the byte tape. Exploration: decided only on canonical and clearly non-matching forms.",
   note="Trusted: the reference detectors in harness/src/refmodel/detect.rs (written from the property text and DESIGN section 8), the reference traversal, solang-parser.",
   design="DESIGN.md section 5 C05, section 8.1"),
 "C06": dict(
   technique="property-based testing: differential against independent reference detectors over generated multi-contract files (declaration-focused generator), two build profiles",
   text="Generated-input search. Programs from the slot matrix (one token per line, so a line identifies a token) and tape-decoded random programs with planted canonical forms and near misses are analysed in three layouts; for each detector of the group the reported lines must contain the line of every canonical instance found by an independent reference detector and may contain only lines of canonical or explicitly undecided instances (DESIGN section 8 fixes the forms). proptest shrinks failures on the byte tape. Exploration: decided only on canonical and clearly non-matching forms.",
   note="Trusted: the reference detectors in harness/src/refmodel/detect.rs (written from the property text and DESIGN section 8), the reference traversal, solang-parser.",
   design="DESIGN.md section 5 C06, section 8.2"),
 "C07": dict(
   technique="property-based testing: differential against independent reference detectors (chain walk, caret test, msg.sender usage classification) over generated programs",
   text="Generated-input search. Programs from the slot matrix (one token per line, so a line identifies a token) and tape-decoded random programs with planted canonical forms and near misses are analysed in three layouts; for each detector of the group the reported lines must contain the line of every canonical instance found by an independent reference detector and may contain only lines of canonical or explicitly undecided instances (DESIGN section 8 fixes the forms). proptest shrinks failures on the byte tape. Exploration: decided only on canonical and clearly non-matching forms.",
   note="Trusted: the reference detectors in harness/src/refmodel/detect.rs (written from the property text and DESIGN section 8), the reference traversal, solang-parser.",
   design="DESIGN.md section 5 C07, section 8.3"),
 "C08": dict(
   technique="property-based testing: differential against independent reference detectors (write-target analysis) over generated programs (mutability-focused generator)",
   text="Generated-input search. Programs from the slot matrix (one token per line, so a line identifies a token) and tape-decoded random programs with planted canonical forms and near misses are analysed in three layouts; for each detector of the group the reported lines must contain the line of every canonical instance found by an independent reference detector and may contain only lines of canonical or explicitly undecided instances (DESIGN section 8 fixes the forms). proptest shrinks failures on the byte tape. Exploration: decided only on canonical and clearly non-matching forms.",
   note="Trusted: the reference detectors in harness/src/refmodel/detect.rs (written from the property text and DESIGN section 8), the reference traversal, solang-parser.",
   design="DESIGN.md section 5 C08, section 8.4"),
 "C09": dict(
   technique="property-based testing: bounded-exhaustive enumeration of version triples x spellings x pragma placements against a version model, metamorphic monotonicity check, random bodies",
   text="Generated-input search. All 1066 version triples 0.0.0..1.12.40 are enumerated with operator spellings and placements of unrelated pragmas (thorough: the full product) over a template body with SafeMath calls and require strings of 0/1/31/32/33/64 bytes; the four detectors must report exactly what the triple-comparison model with thresholds 0.8.0 / 0.8.4 says, never both SafeMath detectors, and their activity must be monotone along the sorted versions; random bodies extend the body domain. Exploration, complete over the listed version domain.",
   note="Trusted: the version model (lexicographic triple comparison) and the reference site finders in refmodel/detect.rs.",
   design="DESIGN.md section 5 C09, section 8.5"),
 "C15": dict(
   technique="property-based testing over call histories (vec of operations + interpreter) against a single-call baseline; concurrent stress and barrier-released cold-start phases; differential across fresh child processes that analyse the same pool in different orders",
   text="Generated-input search over histories: 3-14 library operations (per-file analyses with arbitrary file numbers and repetitions, directory analyses with the file among varying siblings, positions and pattern selections) on a pool of files that share state-variable names and differ in version and SafeMath usage; every (file, pattern) result inside the history must equal the baseline of one isolated call; 16 threads then issue thousands of concurrent calls compared with the sequential baseline; never-seen texts are analysed for the first time by 16 threads released together by a barrier and compared with the sequential verdict taken afterwards; the seeded pool is analysed by several fresh child processes of the harness, each in another order, and all verdicts must agree (process-wide state set once and never reset is invisible inside one process). Exploration; the thread schedule is not controlled (stress only).",
   note="Trusted: the baseline call itself (its correctness is C05-C09's business); OS scheduler for the concurrent phase.",
   design="DESIGN.md section 5 C15"),
 "C17": dict(
   technique="property-based testing: metamorphic relation under token-preserving re-layout (one-token-per-line layout as reference) and string-content blanking",
   text="Generated-input search. The token sequence of a generated program is laid out one token per line (line = token index), on one line, with CRLF, without final newline, in three random layouts with code-like comments, multi-byte characters and touching tokens, and with all string contents replaced by equal-length x-runs; for all 30 patterns the lines reported under each layout must be exactly the lines of the tokens flagged in the one-token-per-line layout. Exploration.",
   note="Trusted: solang's lexer for tokenisation (each layout is re-lexed and must give the same tokens), the line model of C02.",
   design="DESIGN.md section 5 C17"),
 "C19": dict(
   technique="property-based testing: metamorphic relation (blank all but one top-level item, newlines kept) with set union as oracle",
   text="Generated-input search. For generated files with 2-6 top-level items and file-wide unique, unshared state-variable names, and for the 28 detectors other than the two SafeMath ones, the findings of the file must equal the union of the findings of the file with everything but one item (and the pragmas) blanked out. Exploration.",
   note="Trusted: item extents from the parser's locations; the blanked files are re-parsed (self-check).",
   design="DESIGN.md section 5 C19"),
 "C14": dict(
   technique="property-based testing: generated configurations (name subsets, orders, casings, unknown names, --path/--toml/./contracts presence) against a selection and precedence model, through the library and the binary",
   text="Generated-input search. Library level: every documented name (read from the docs tables and Solstat.toml at check time) in 15 casings must be accepted and select the pattern of that name, names are injective, every default pattern has a documented name, near-miss and foreign-category names are rejected. Binary level: generated toml files and flag combinations on three marker directories holding a corpus where the patterns fire; exit status, absence of a report for unknown names, the analysed directory (by marker file names) and the set of pattern sections (selected intersected with firing) are checked. Exploration.",
   note="Trusted: the hand-written name->pattern table in harness/src/patterns.rs, the report parser, the corpus' firing set computed by library analysis.",
   design="DESIGN.md section 5 C14"),
 "C18": dict(
   technique="property-based testing over run histories with file-system snapshots as invariant and a fresh-directory run as differential oracle",
   text="Generated-input search over histories of 1-3 runs of the binary with generated trees, four kinds of working directory (separate, parent with default ./contracts, the analysed directory itself, a sub-directory of it), four kinds of pre-existing report and optional edits between runs; byte snapshots of the analysed tree and working directory before/after each run must be identical except for cwd/solstat_report.md, whose bytes must equal the report of a run on the same tree from a fresh directory. Exploration.",
   note="Trusted: deterministic report (C13), tmpfs scratch area private to the harness.",
   design="DESIGN.md section 5 C18"),
}

NOT_YET = {
}

def main():
    props = [json.loads(l) for l in open(os.path.join(V, "properties.jsonl"))]
    checks = []
    na = []
    for p in props:
        pid = p["id"]
        if pid in CHECKS:
            c = CHECKS[pid]
            checks.append({
                "property_id": pid,
                "quick_cmd": f"./check {pid} --tier quick",
                "thorough_cmd": f"./check {pid} --tier thorough",
                "evidence_file": f"evidence/{pid}.json",
                "replay_cmd_template": f"./check {pid} --replay {{path}}",
                "engine": "vcheck",
                "level_claimed": {"category": "exploration", "text": c["text"], "design_ref": c["design"]},
                "level_note": c["note"],
                "technique": c["technique"],
            })
        else:
            na.append({"property_id": pid, "reason": NOT_YET.get(pid, "check not built yet (work in progress; the design in DESIGN.md section 5 applies the technique to this property)")})
    m = {
        "version": 1,
        "setup_cmd": "./setup.sh",
        "hooks": {
            "guard": "solstat_verif",
            "enable": "none needed: every observation point is public in the library target or visible from the binary; checks build /repo's working tree as a path dependency",
            "baseline_off_cmd": "cd /repo && cargo test --workspace --no-fail-fast --offline",
            "source_commits": [],
            "add_only": True,
        },
        "engines": [
            {"name": "vcheck", "path": "harness/", "serves_properties": [c["property_id"] for c in checks],
             "kind_free_text": "Rust harness: proptest (fixed seeds from VERIF_SEED, shrinking on byte tapes), bounded-exhaustive enumerations, reference models; path-depends on /repo"},
        ],
        "checks": checks,
        "notes": "All checks are property-based tests / fuzzers against explicit oracles (DESIGN.md). Known findings and repaired defects are listed in KNOWN_FINDINGS.txt.",
        "not_applicable": na,
    }
    json.dump(m, open(os.path.join(V, "MANIFEST.json"), "w"), indent=1)
    print("wrote MANIFEST.json with", len(checks), "checks,", len(na), "not claimed")

if __name__ == "__main__":
    main()
