#!/usr/bin/env python3
"""Generate /verif/MANIFEST.json from the table below (keeps it schema-valid)."""
import json, os, sys
V = os.path.dirname(os.path.dirname(os.path.abspath(__file__)))

CHECKS = {
 "C01": dict(
   technique="property-based testing: differential against an independent exhaustive reference traversal (proptest on byte tapes + bounded-exhaustive slot matrix)",
   text="Generated-input search. Every (file, root node, kind set) case compares solstat's tree search, as a sequence of Node values, with an independent pre-order reference traversal filtered by kind (both directions: nothing missing, duplicated, foreign or out of order). The slot matrix enumerates every child slot of every parse-tree variant x 18+8+4 markers completely on every run; proptest adds thousands of random programs with random roots and kind sets and shrinks failures on the byte tape. Exploration, not proof: absence of a counterexample within the explored programs.",
   note="Trusted: solang-parser 0.1.18 (shared front end), the reference traversal in harness/src/refmodel/walk.rs (exhaustive matches, no wildcard arms), proptest, rustc.",
   design="DESIGN.md section 5 C01"),
 "C02": dict(
   technique="property-based testing: reference line model (bounded-exhaustive short strings + random Unicode texts) and differential end-to-end check of the loc-set to line-set step under generated re-layouts",
   text="Generated-input search. (a) get_line_number is compared with the model 1 + #LF-before-offset for every string of length <= 7 (thorough: 9) over {a, LF, CR, 2-byte char, blank} at every non-blank offset (complete enumeration) and for random Unicode texts with LF/CRLF/lone-CR mixes; (b) for generated programs in 4 fixed and 2 random layouts (comments, CRLF, multi-byte, no final newline) and all 30 patterns, analyze_for_* must equal the lines of the detector's own locations under the model. Exploration; which location each detector must choose is pinned by C05-C08/C17.",
   note="Trusted: the line model taken from the property statement, solang-parser locations, proptest.",
   design="DESIGN.md section 5 C02"),
 "C04": dict(
   technique="property-based testing / fuzzing for totality: generated and feature-directed parser-accepted files, all 30 detectors under catch_unwind, two build profiles",
   text="Generated-input search for aborts. Every parser-accepted file (feature-directed list: no/odd/huge pragmas, free functions, literals beyond u32..2^256 and with exponents, zero-argument calls, 254..600 functions before a constructor, deep and wide files; plus tape-decoded random programs with arbitrary pragma placement, deep and wide streams) is run through all 30 analyze_for_* entry points under catch_unwind, in a build with overflow checks/debug assertions and in one without. A panic is a violation keyed by its source location. Exploration: totality is only shown on what was generated.",
   note="Trusted: solang-parser (inputs it rejects or panics on are outside the domain), the panic hook/catch_unwind capture, proptest.",
   design="DESIGN.md section 5 C04"),
}

NOT_YET = {
}

def main():
    props = [json.loads(l) for l in open(os.path.join(V, "properties.jsonl"))]
    checks = []
    na = []
    for p in props:
        pid = p["id"]
        if pid in CHECKS:
            c = CHECKS[pid]
            checks.append({
                "property_id": pid,
                "quick_cmd": f"./check {pid} --tier quick",
                "thorough_cmd": f"./check {pid} --tier thorough",
                "evidence_file": f"evidence/{pid}.json",
                "replay_cmd_template": f"./check {pid} --replay {{path}}",
                "engine": "vcheck",
                "level_claimed": {"category": "exploration", "text": c["text"], "design_ref": c["design"]},
                "level_note": c["note"],
                "technique": c["technique"],
            })
        else:
            na.append({"property_id": pid, "reason": NOT_YET.get(pid, "check not built yet (work in progress; the design in DESIGN.md section 5 applies the technique to this property)")})
    m = {
        "version": 1,
        "setup_cmd": "./setup.sh",
        "hooks": {
            "guard": "solstat_verif",
            "enable": "none needed: every observation point is public in the library target or visible from the binary; checks build /repo's working tree as a path dependency",
            "baseline_off_cmd": "cd /repo && cargo test --workspace --no-fail-fast --offline",
            "source_commits": [],
            "add_only": True,
        },
        "engines": [
            {"name": "vcheck", "path": "harness/", "serves_properties": [c["property_id"] for c in checks],
             "kind_free_text": "Rust harness: proptest (fixed seeds from VERIF_SEED, shrinking on byte tapes), bounded-exhaustive enumerations, reference models; path-depends on /repo"},
        ],
        "checks": checks,
        "notes": "All checks are property-based tests / fuzzers against explicit oracles (DESIGN.md). Known findings and repaired defects are listed in KNOWN_FINDINGS.txt.",
        "not_applicable": na,
    }
    json.dump(m, open(os.path.join(V, "MANIFEST.json"), "w"), indent=1)
    print("wrote MANIFEST.json with", len(checks), "checks,", len(na), "not claimed")

if __name__ == "__main__":
    main()
