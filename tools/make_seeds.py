#!/usr/bin/env python3
"""Extract the contracts embedded in the repository's own tests (r#"..."# literals) and the texts of
the committed regressions into fuzz/seeds/ (seed corpus for fz_total, also replayed by C04)."""
import re, os, glob, json, hashlib
V = os.path.dirname(os.path.dirname(os.path.abspath(__file__)))
out = os.path.join(V, "fuzz", "seeds")
os.makedirs(out, exist_ok=True)
n = 0
for f in sorted(glob.glob("/repo/src/**/*.rs", recursive=True)):
    if "report_sections" in f:
        continue
    src = open(f).read()
    for m in re.finditer(r'r#"(.*?)"#', src, re.S):
        body = m.group(1)
        if "contract" in body or "pragma" in body:
            name = "t_" + hashlib.sha1(body.encode()).hexdigest()[:12] + ".sol"
            open(os.path.join(out, name), "w").write(body)
            n += 1
for f in sorted(glob.glob(os.path.join(V, "regressions", "*", "*.json"))):
    try:
        d = json.load(open(f))
    except Exception:
        continue
    t = d.get("case", {}).get("text")
    if isinstance(t, str) and 0 < len(t) < 6000:
        name = "r_" + hashlib.sha1(t.encode()).hexdigest()[:12] + ".sol"
        open(os.path.join(out, name), "w").write(t)
        n += 1
print("seeds written:", n, "distinct files:", len(os.listdir(out)))
