#!/bin/bash
# tools/run_mutant.sh <patch.diff> [-R] <ID>...   apply a patch to /repo, run the quick checks, undo it.
# prints one line per check: <ID> exit=<code> secs=<n> [first VIOLATION signature]
set -u
PATCH="$(readlink -f "$1")"; shift
REV=""
if [ "${1:-}" = "-R" ]; then REV="-R"; shift; fi
cd /repo
if ! git diff --quiet; then echo "refusing: /repo has uncommitted changes" >&2; exit 2; fi
if ! git apply $REV --check "$PATCH" 2>/dev/null; then
  # the repairs made after a change was written may have touched its context: use the rebased variant kept next to it
  ALT="$(ls "$(dirname "$PATCH")"/patch-rebased-on-*.diff 2>/dev/null | tail -1)"
  if [ -z "$REV" ] && [ -n "$ALT" ] && git apply --check "$ALT" 2>/dev/null; then echo "(using $(basename "$ALT"))"; PATCH="$ALT"; else echo "PATCH-DOES-NOT-APPLY $PATCH"; exit 3; fi
fi
git apply $REV "$PATCH"
trap 'git -C /repo checkout -- . ; git -C /repo clean -fdq -- tests 2>/dev/null' EXIT
for id in "$@"; do
  t0=$(date +%s)
  out=$(cd /verif && VERIF_SEED=${VERIF_SEED:-0} timeout 1500 ./check "$id" --tier "${TIER:-quick}" 2>&1)
  rc=$?
  t1=$(date +%s)
  sig=$(echo "$out" | grep -m1 "signature:" | sed 's/^ *signature: //')
  echo "$id exit=$rc secs=$((t1-t0)) $sig"
done
