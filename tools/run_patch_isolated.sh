#!/bin/bash
# tools/run_patch_isolated.sh <patch.diff> <ID>...
# Runs quick checks against a patched *copy* of /repo (scratch worktree /tmp/iso), leaving /repo untouched:
# the harness is rebuilt with a cargo path override (`paths = ["/tmp/iso"]`) into /tmp/iso-target.
# For exploration only (e.g. while a long run uses /repo); registered checks always build from /repo itself.
set -u
PATCH="$(readlink -f "$1")"; shift
export CARGO_NET_OFFLINE=true
W=/tmp/iso; T=/tmp/iso-target; VD=/tmp/iso-verif
if [ ! -d "$W" ]; then git -C /repo worktree add -q --detach "$W" HEAD || exit 2; fi
cd "$W" && git checkout -q --detach "$(git -C /repo rev-parse HEAD)" && git checkout -q -- . && git clean -fdq
git apply --check "$PATCH" 2>/dev/null || { echo "PATCH-DOES-NOT-APPLY $PATCH"; exit 3; }
git apply "$PATCH"
mkdir -p "$VD"; rm -rf "$VD/evidence" "$VD/replays"; ln -sfn /verif/regressions "$VD/regressions"; cp /verif/KNOWN_FINDINGS.txt "$VD/"; mkdir -p "$VD/fuzz"; ln -sfn /verif/fuzz/seeds "$VD/fuzz/seeds"
( cd /verif/harness && cargo build --offline --release --bin vcheck --target-dir "$T" --config "paths=[\"$W\"]" ) >"$T.build.log" 2>&1 || { echo "BUILD-ERROR (harness vs patched copy); see $T.build.log"; tail -5 "$T.build.log"; exit 2; }
( cd "$W" && cargo build --offline --release --bin solstat --target-dir "$T/solstat-bin" ) >>"$T.build.log" 2>&1 || { echo "BUILD-ERROR (binary)"; exit 2; }
for id in "$@"; do
  t0=$(date +%s)
  out=$(VCHECK_REPO="$W" VCHECK_SOLSTAT_BIN="$T/solstat-bin/release/solstat" VERIF_DIR="$VD" VERIF_SEED=${VERIF_SEED:-0} timeout 1500 "$T/release/vcheck" "$id" --tier quick 2>&1); rc=$?
  t1=$(date +%s)
  echo "$id exit=$rc secs=$((t1-t0)) $(echo "$out" | grep -m1 'signature:' | sed 's/^ *signature: //') $(echo "$out" | grep -m1 -E 'VACUITY|HARNESS|INCONCLUSIVE')"
done
cd "$W" && git checkout -q -- . && git clean -fdq
