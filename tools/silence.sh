#!/bin/bash
# tools/silence.sh <tier> <seed>...   run every check on the unchanged tree; every line must end in exit=0
cd "$(dirname "$0")/.."
TIER="$1"; shift
for seed in "$@"; do
  for id in C01 C02 C03 C04 C05 C06 C07 C08 C09 C10 C11 C12 C13 C14 C15 C16 C17 C18 C19; do
    t0=$(date +%s)
    out=$(VERIF_SEED=$seed ./check $id --tier $TIER 2>&1); rc=$?
    t1=$(date +%s)
    echo "seed=$seed $id exit=$rc secs=$((t1-t0)) $(echo "$out" | grep -m1 -E 'VIOLATION|VACUITY|HARNESS|INCONCLUSIVE')"
  done
done
