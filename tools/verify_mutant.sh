#!/bin/bash
# tools/verify_mutant.sh <dir-with-patchK.diff/demoK.*> <K>
# Confirms in a scratch worktree (/tmp/ver): existing suite passes with the patch, demo fails with it, demo passes without it.
set -u
D="$(readlink -f "$1")"; K="$2"
W=/tmp/ver
export CARGO_NET_OFFLINE=true
if [ ! -d "$W" ]; then git -C /repo worktree add -q --detach "$W" HEAD || exit 2; fi
cd "$W" && git checkout -q --detach "$(git -C /repo rev-parse HEAD)" 2>/dev/null; git checkout -q -- . ; rm -rf tests
demo=""
for ext in rs sh; do [ -f "$D/demo$K.$ext" ] && demo="$D/demo$K.$ext"; done
[ -n "$demo" ] || { echo "no demo"; exit 2; }
run_demo() {
  case "$demo" in
    *.rs) mkdir -p tests && cp "$demo" tests/demo.rs && cargo test --offline --test demo >/tmp/ver-demo.log 2>&1; rc=$?; rm -rf tests; return $rc ;;
    *.sh) cargo build --offline >/tmp/ver-demo.log 2>&1; (cd "$W" && bash "$demo" "$W") >>/tmp/ver-demo.log 2>&1; return $? ;;
  esac
}
run_demo; clean_rc=$?
git apply --check "$D/patch$K.diff" || { echo "patch does not apply"; exit 3; }
git apply "$D/patch$K.diff"
cargo test --offline --lib --bins >/tmp/ver-suite.log 2>&1; suite_rc=$?
passed=$(grep -c "^test .* ok$" /tmp/ver-suite.log)
run_demo; mut_rc=$?
git checkout -q -- . ; rm -rf tests
echo "demo_on_clean_exit=$clean_rc suite_with_patch_exit=$suite_rc suite_tests_ok=$passed demo_with_patch_exit=$mut_rc"
if [ $clean_rc -eq 0 ] && [ $suite_rc -eq 0 ] && [ $mut_rc -ne 0 ]; then echo CONFIRMED; exit 0; else echo NOT-CONFIRMED; exit 1; fi
